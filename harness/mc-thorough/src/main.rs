fn main() {
    let mut entries = vec![];
    entries.extend(cat_t0::entries());
    entries.extend(cat_t1::entries());
    entries.extend(cat_t2::entries());
    entries.extend(cat_t3::entries());
    entries.extend(cat_t4::entries());
    entries.extend(cat_t5::entries());
    entries.extend(cat_t6::entries());
    entries.extend(cat_t7::entries());
    entries.sort_by_key(|e| e.id);
    let cat = mc_desc::catalogue::build(mc_desc::catalogue::Tier::Thorough);
    mc_core::names::set_wide_probe(cat_wide::wide_names_probe);
    assert_eq!(entries.len(), cat.roots.len());
    std::process::exit(mc_core::main_with(entries, cat));
}
