//! C16 — the derive rejects what it cannot honour.  Enumerates derive inputs
//! (valid base items × rejection causes × placements), compiles them with the
//! real `rustc` + the real proc-macro in one `cargo check --message-format=json`
//! run, and checks that every poisoned item gets an error diagnostic issued by
//! the derive (no panic, no silent acceptance).  A second crate with the base
//! items and every valid attribute of the grammar must compile cleanly, so that
//! a derive rejecting everything cannot pass vacuously.

use mc_core::evidence::*;
use serde_json::json;
use std::collections::{BTreeMap, HashSet};
use std::path::{Path, PathBuf};
use std::process::Command;

#[derive(Clone, Debug)]
enum Attr {
    /// `#[deserr(a, b, ...)]`
    Args(Vec<String>),
    /// written verbatim
    Raw(String),
}

impl Attr {
    fn render(&self) -> String {
        match self {
            Attr::Args(a) => format!("#[deserr({})]", a.join(", ")),
            Attr::Raw(r) => r.clone(),
        }
    }
}

#[derive(Clone, Debug)]
struct Member {
    attrs: Vec<Attr>,
    /// `a: u8` (field) or `A` (variant name; fields in `inner`)
    decl: String,
    /// struct-like variant fields; `None` for fields and unit variants
    inner: Option<Vec<Member>>,
}

fn field(decl: &str) -> Member {
    Member { attrs: vec![], decl: decl.to_string(), inner: None }
}

#[derive(Clone, Debug)]
struct Item {
    base: &'static str,
    keyword: &'static str,
    generics: &'static str,
    derives: &'static str,
    container: Vec<Attr>,
    members: Vec<Member>,
    /// replaces `{ members }` (tuple / unit shapes)
    body: Option<String>,
}

impl Item {
    fn render(&self, name: &str) -> String {
        let mut s = String::new();
        s.push_str(&format!("#[derive({})]\n", self.derives));
        for a in &self.container {
            s.push_str(&a.render());
            s.push('\n');
        }
        s.push_str(&format!("pub {} {}{}", self.keyword, name, self.generics));
        if let Some(b) = &self.body {
            s.push_str(b);
            s.push('\n');
            return s;
        }
        s.push_str(" {\n");
        for m in &self.members {
            for a in &m.attrs {
                s.push_str(&format!("    {}\n", a.render()));
            }
            match &m.inner {
                None => {
                    let vis = if self.keyword == "enum" { "" } else { "pub " };
                    s.push_str(&format!("    {vis}{},\n", m.decl));
                }
                Some(fs) => {
                    s.push_str(&format!("    {} {{\n", m.decl));
                    for f in fs {
                        for a in &f.attrs {
                            s.push_str(&format!("        {}\n", a.render()));
                        }
                        s.push_str(&format!("        {},\n", f.decl));
                    }
                    s.push_str("    },\n");
                }
            }
        }
        s.push_str("}\n");
        s
    }
}

// ---------- base items (all valid) ----------

fn bases() -> Vec<Item> {
    let st = |base: &'static str, members: Vec<Member>| Item {
        base,
        keyword: "struct",
        generics: "",
        derives: "Deserr",
        container: vec![],
        members,
        body: None,
    };
    vec![
        st("S1", vec![field("a: u8")]),
        st("S2", vec![field("a: u8"), field("b: String")]),
        st("S3", vec![field("a: u8"), field("b: Option<u8>"), field("c: Vec<u8>")]),
        Item { generics: "<T>", ..st("SG", vec![field("a: T")]) },
        Item { keyword: "enum", ..st("UE", vec![field("A"), field("B")]) },
        Item {
            keyword: "enum",
            container: vec![Attr::Args(vec!["tag = \"t\"".into()])],
            ..st(
                "TE",
                vec![field("A"), Member { attrs: vec![], decl: "B".into(), inner: Some(vec![field("x: u8"), field("y: String")]) }],
            )
        },
        Item {
            derives: "Deserr, Default",
            container: vec![Attr::Args(vec!["from(String) = cf".into()])],
            ..st("CF", vec![field("a: u8")])
        },
        Item {
            derives: "Deserr, Default",
            container: vec![Attr::Args(vec!["try_from(String) = ct -> Cerr".into()])],
            ..st("CT", vec![field("a: u8")])
        },
        Item {
            keyword: "enum",
            derives: "Deserr, Default",
            container: vec![Attr::Args(vec!["from(String) = cf".into()])],
            ..st("CE", vec![Member { attrs: vec![Attr::Raw("#[default]".into())], decl: "A".into(), inner: None }, field("B")])
        },
    ]
}

fn base(name: &str) -> Item {
    bases().into_iter().find(|b| b.base == name).unwrap()
}

const PRELUDE: &str = r#"#![allow(dead_code, unused_variables, unused_imports, non_snake_case, non_camel_case_types)]
use deserr::{DeserializeError, Deserr, ErrorKind, IntoValue, MergeWithError, ValuePointerRef, take_cf_content};
use std::convert::Infallible;
use std::ops::ControlFlow;

#[derive(Debug)]
pub struct Cerr;
impl std::fmt::Display for Cerr {
    fn fmt(&self, f: &mut std::fmt::Formatter<'_>) -> std::fmt::Result { write!(f, "cerr") }
}
impl std::error::Error for Cerr {}

pub struct Err2;
impl DeserializeError for Err2 {
    fn error<V: IntoValue>(_: Option<Self>, _: ErrorKind<V>, _: ValuePointerRef) -> ControlFlow<Self, Self> { ControlFlow::Break(Err2) }
}
impl MergeWithError<Err2> for Err2 {
    fn merge(_: Option<Self>, o: Err2, _: ValuePointerRef) -> ControlFlow<Self, Self> { ControlFlow::Break(o) }
}
impl MergeWithError<Cerr> for Err2 {
    fn merge(_: Option<Self>, _: Cerr, _: ValuePointerRef) -> ControlFlow<Self, Self> { ControlFlow::Break(Err2) }
}
pub struct Err3;

pub fn cf<T: Default>(_: String) -> T { T::default() }
pub fn ct<T: Default>(_: String) -> Result<T, Cerr> { Ok(T::default()) }
pub fn fmap<T>(x: T) -> T { x }
pub fn ffrom(x: String) -> u8 { x.len() as u8 }
pub fn ffrom_ref(x: &String) -> u8 { x.len() as u8 }
pub fn ftry(x: String) -> Result<u8, Cerr> { Ok(x.len() as u8) }
pub fn miss<E: DeserializeError>(_: &str, l: ValuePointerRef) -> E {
    take_cf_content(E::error::<Infallible>(None, ErrorKind::Unexpected { msg: String::new() }, l))
}
pub fn unk<E: DeserializeError>(_: &str, _: &[&str], l: ValuePointerRef) -> E {
    take_cf_content(E::error::<Infallible>(None, ErrorKind::Unexpected { msg: String::new() }, l))
}
pub fn val<T>(t: T, _: ValuePointerRef) -> Result<T, Cerr> { Ok(t) }

"#;

// ---------- placements ----------

/// Ways of writing `valid ++ poison` at one attribute position: inside one
/// `#[deserr(..)]`, spread over several, with an unrelated valid argument
/// before / after / between.
fn placements(valid: &[String], poison: &[String], unrelated: Option<&str>) -> Vec<(String, Vec<Attr>)> {
    let mut out: Vec<(String, Vec<Attr>)> = vec![];
    let all: Vec<String> = valid.iter().chain(poison.iter()).cloned().collect();
    out.push(("one attribute".into(), vec![Attr::Args(all.clone())]));
    if all.len() >= 2 {
        out.push(("one attribute per argument".into(), all.iter().map(|a| Attr::Args(vec![a.clone()])).collect()));
        // first argument alone, rest together
        if all.len() > 2 {
            out.push(("split 1 + rest".into(), vec![Attr::Args(vec![all[0].clone()]), Attr::Args(all[1..].to_vec())]));
        }
    }
    if let Some(u) = unrelated {
        let u = u.to_string();
        let mut v = vec![u.clone()];
        v.extend(all.iter().cloned());
        out.push(("unrelated first, one attribute".into(), vec![Attr::Args(v)]));
        let mut v = all.clone();
        v.push(u.clone());
        out.push(("unrelated last, one attribute".into(), vec![Attr::Args(v)]));
        let mut attrs = vec![Attr::Args(vec![u.clone()])];
        attrs.extend(all.iter().map(|a| Attr::Args(vec![a.clone()])));
        out.push(("unrelated attribute first".into(), attrs));
        let mut attrs: Vec<Attr> = all.iter().map(|a| Attr::Args(vec![a.clone()])).collect();
        attrs.push(Attr::Args(vec![u.clone()]));
        out.push(("unrelated attribute last".into(), attrs));
        if all.len() >= 2 {
            let mut attrs: Vec<Attr> = vec![Attr::Args(vec![all[0].clone()]), Attr::Args(vec![u.clone()])];
            attrs.extend(all[1..].iter().map(|a| Attr::Args(vec![a.clone()])));
            out.push(("unrelated attribute between".into(), attrs));
            let mut v = vec![all[0].clone(), u.clone()];
            v.extend(all[1..].iter().cloned());
            out.push(("unrelated between, one attribute".into(), vec![Attr::Args(v)]));
        }
    }
    out
}

fn args_of(attrs: &[Attr]) -> Vec<String> {
    attrs
        .iter()
        .flat_map(|a| match a {
            Attr::Args(v) => v.clone(),
            Attr::Raw(_) => vec![],
        })
        .collect()
}

fn raws_of(attrs: &[Attr]) -> Vec<Attr> {
    attrs.iter().filter(|a| matches!(a, Attr::Raw(_))).cloned().collect()
}

#[derive(Clone, Debug)]
struct Program {
    cause: String,
    level: &'static str,
    placement: String,
    item: Item,
}

#[derive(Clone, Copy)]
enum Pos {
    Container,
    /// member index
    Member(usize),
    /// (variant index, field index)
    Inner(usize, usize),
}

fn attrs_at<'a>(it: &'a mut Item, pos: Pos) -> &'a mut Vec<Attr> {
    match pos {
        Pos::Container => &mut it.container,
        Pos::Member(i) => &mut it.members[i].attrs,
        Pos::Inner(v, f) => &mut it.members[v].inner.as_mut().unwrap()[f].attrs,
    }
}

fn poison_at(
    out: &mut Vec<Program>,
    base_name: &str,
    pos: Pos,
    level: &'static str,
    cause: &str,
    poison: &[&str],
    unrelated: Option<&str>,
    tier: Tier,
) {
    let b = base(base_name);
    let mut probe = b.clone();
    let existing = attrs_at(&mut probe, pos).clone();
    let valid = args_of(&existing);
    let raws = raws_of(&existing);
    let poison: Vec<String> = poison.iter().map(|s| s.to_string()).collect();
    let mut pls = placements(&valid, &poison, unrelated);
    let _ = tier; // every placement in both tiers (a forgotten span can depend on what follows the argument)
    for (pname, attrs) in pls {
        let mut it = b.clone();
        let slot = attrs_at(&mut it, pos);
        *slot = raws.clone();
        slot.extend(attrs);
        out.push(Program { cause: format!("{cause} [{base_name}]"), level, placement: pname, item: it });
    }
}

fn raw_at(out: &mut Vec<Program>, base_name: &str, pos: Pos, level: &'static str, cause: &str, raw: &str) {
    let mut it = base(base_name);
    attrs_at(&mut it, pos).push(Attr::Raw(raw.to_string()));
    out.push(Program { cause: format!("{cause} [{base_name}]"), level, placement: "verbatim".into(), item: it.clone() });
    // also before the existing attributes
    let mut it2 = base(base_name);
    attrs_at(&mut it2, pos).insert(0, Attr::Raw(raw.to_string()));
    if !attrs_at(&mut it2, pos).iter().skip(1).next().is_none() {
        out.push(Program { cause: format!("{cause} [{base_name}]"), level, placement: "verbatim, first".into(), item: it2 });
    }
}

fn programs(tier: Tier) -> Vec<Program> {
    let mut out: Vec<Program> = vec![];
    let o = &mut out;
    let c = Pos::Container;

    // ----- unsupported shapes -----
    let shape = |o: &mut Vec<Program>, cause: &str, it: Item| {
        o.push(Program { cause: cause.to_string(), level: "shape", placement: "plain".into(), item: it.clone() });
        // with otherwise valid container attributes present
        let mut it2 = it.clone();
        it2.container.insert(0, Attr::Args(vec!["error = Err2".into()]));
        o.push(Program { cause: cause.to_string(), level: "shape", placement: "with error = Err2".into(), item: it2 });
        let mut it3 = it;
        it3.container.push(Attr::Args(vec!["rename_all = camelCase".into()]));
        o.push(Program { cause: cause.to_string(), level: "shape", placement: "with rename_all".into(), item: it3 });
    };
    shape(o, "tuple struct", Item { body: Some("(pub u8);".into()), ..base("S1") });
    shape(o, "tuple struct (2)", Item { body: Some("(pub u8, pub String);".into()), ..base("S1") });
    shape(o, "unit struct", Item { body: Some(";".into()), ..base("S1") });
    shape(o, "tuple struct without fields", Item { body: Some("();".into()), ..base("S1") });
    shape(o, "union", Item { keyword: "union", members: vec![field("a: u8"), field("b: u16")], ..base("S1") });
    {
        let mut te = base("TE");
        te.members.push(field("C(i32)"));
        shape(o, "variant with unnamed data (tagged)", te);
        let mut te = base("TE");
        te.members.insert(0, field("C(i32, u8)"));
        shape(o, "variant with unnamed data first (tagged)", te);
        let mut te = base("TE");
        te.members.push(field("C()"));
        shape(o, "tuple variant without fields (tagged)", te);
        let mut te = base("TE");
        te.members.insert(0, field("C()"));
        shape(o, "tuple variant without fields first (tagged)", te);
        let mut ue = base("UE");
        ue.members.push(Member { attrs: vec![], decl: "C".into(), inner: Some(vec![field("x: u8")]) });
        shape(o, "data-carrying enum without tag", ue);
        let mut ue = base("UE");
        ue.members.push(field("C(u8)"));
        shape(o, "enum with unnamed data without tag", ue);
        let mut ue = base("UE");
        ue.members = vec![Member { attrs: vec![], decl: "Only".into(), inner: Some(vec![field("x: u8")]) }];
        shape(o, "single data-carrying variant without tag", ue);
        // brace variants without any field (an empty field list is still "named data")
        let empty = |name: &str| Member { attrs: vec![], decl: name.into(), inner: Some(vec![]) };
        let mut ue = base("UE");
        ue.members = vec![empty("E0"), Member { attrs: vec![], decl: "C".into(), inner: Some(vec![field("x: u8")]) }];
        shape(o, "enum without tag whose first brace variant has no field", ue);
        let mut ue = base("UE");
        ue.members.push(empty("E0"));
        shape(o, "enum without tag with a field-less brace variant", ue);
        let mut ue = base("UE");
        ue.members = vec![empty("Only")];
        shape(o, "single field-less brace variant without tag", ue);
        let mut ue = base("UE");
        ue.members = vec![Member { attrs: vec![], decl: "C".into(), inner: Some(vec![field("x: u8")]) }, empty("E0"), field("A")];
        shape(o, "enum without tag: data variant, field-less brace variant, unit variant", ue);
        let mut te = base("TE");
        te.members.insert(0, empty("E0"));
        te.members.push(field("C(i32)"));
        shape(o, "variant with unnamed data after a field-less brace variant (tagged)", te);
    }

    // ----- container level -----
    for b in ["S1", "S2", "UE", "TE"] {
        let unrel = if b == "UE" { None } else { Some("deny_unknown_fields") };
        let unrel_not_deny = Some("error = Err2");
        for p in [["bogus"], ["bogus = 1"], ["rename = \"x\""], ["default"], ["skip"], ["map = fmap"], ["Rename_all = camelCase"], ["reñame_all = camelCase"], ["αβ"], ["тег = \"t\""], ["é"], ["r"]] {
            poison_at(o, b, c, "container", &format!("unknown container attribute `{}`", p[0]), &p, unrel, tier);
        }
        for p in [
            ["rename_all = camelCase", "rename_all = camelCase"],
            ["rename_all = camelCase", "rename_all = lowercase"],
            ["rename_all = lowercase", "rename_all = camelCase"],
        ] {
            poison_at(o, b, c, "container", "rename_all given twice", &p, unrel, tier);
        }
        for p in [["error = Err2", "error = Err2"], ["error = Err2", "error = Err3"]] {
            poison_at(o, b, c, "container", "error given twice", &p, unrel, tier);
        }
        for p in [
            ["deny_unknown_fields", "deny_unknown_fields"],
            ["deny_unknown_fields", "deny_unknown_fields = unk"],
            ["deny_unknown_fields = unk", "deny_unknown_fields"],
            ["deny_unknown_fields = unk", "deny_unknown_fields = unk"],
        ] {
            poison_at(o, b, c, "container", "deny_unknown_fields given twice", &p, unrel_not_deny, tier);
        }
        for p in [["validate = val -> Cerr", "validate = val -> Cerr"], ["validate = val -> Cerr", "validate = fmap -> Cerr"]] {
            poison_at(o, b, c, "container", "validate given twice", &p, unrel, tier);
        }
        for p in [
            ["rename_all = snake_case"],
            ["rename_all = \"camelCase\""],
            ["rename_all = CamelCase"],
            ["rename_all = camelcase"],
        ] {
            poison_at(o, b, c, "container", &format!("invalid rename_all value `{}`", p[0]), &p, unrel, tier);
        }
        for p in [
            ["rename_all camelCase"],
            ["rename_all ="],
            ["rename_all"],
            ["tag = x"],
            ["error"],
            ["error ="],
            ["validate = val"],
            ["validate"],
            ["from(String)"],
            ["from = cf"],
            ["try_from(String) = ct"],
            ["deny_unknown_fields extra"],
            ["deny_unknown_fields = "],
            ["rename_all = camelCase lowercase"],
            ["= camelCase"],
            ["\"rename_all\" = camelCase"],
            ["where_predicate"],
            ["generic_param ="],
        ] {
            poison_at(o, b, c, "container", &format!("malformed container attribute `{}`", p[0]), &p, None, tier);
        }
        raw_at(o, b, c, "container", "malformed: #[deserr]", "#[deserr]");
        raw_at(o, b, c, "container", "malformed: #[deserr = \"x\"]", "#[deserr = \"x\"]");
        raw_at(o, b, c, "container", "malformed: #[deserr(,)]", "#[deserr(,)]");
        raw_at(o, b, c, "container", "malformed: #[deserr(, error = Err2)]", "#[deserr(, error = Err2)]");
        raw_at(o, b, c, "container", "malformed: #[deserr(error = Err2,, )]", "#[deserr(error = Err2,, )]");
    }
    // the same container-level causes on items whose body is replaced by a container `from`:
    // the user function does not make the rest of the attribute set honourable
    for b in ["CF", "CE"] {
        let unrel = Some("error = Err2");
        for p in [["bogus"], ["rename = \"x\""], ["default"], ["skip"]] {
            poison_at(o, b, c, "container", &format!("unknown container attribute `{}` (with container from)", p[0]), &p, unrel, tier);
        }
        for p in [["rename_all = camelCase", "rename_all = lowercase"], ["deny_unknown_fields", "deny_unknown_fields"], ["validate = val -> Cerr", "validate = val -> Cerr"], ["error = Err2", "error = Err3"]] {
            poison_at(o, b, c, "container", &format!("`{}` given twice (with container from)", p[0].split(' ').next().unwrap()), &p, None, tier);
        }
        for p in [["rename_all = snake_case"], ["tag = x"], ["rename_all ="], ["validate = val"]] {
            poison_at(o, b, c, "container", &format!("invalid / malformed `{}` (with container from)", p[0]), &p, unrel, tier);
        }
        raw_at(o, b, c, "container", "malformed: #[deserr] (with container from)", "#[deserr]");
    }
    poison_at(o, "CF", c, "container", "tag on a struct (with container from)", &["tag = \"t\""], Some("error = Err2"), tier);
    poison_at(o, "CE", c, "container", "tag given twice (with container from)", &["tag = \"t\"", "tag = \"u\""], Some("error = Err2"), tier);
    // tag
    for p in [["tag = \"t\""], ["tag = \"u\""]] {
        poison_at(o, "TE", c, "container", "tag given twice", &p, Some("deny_unknown_fields"), tier);
    }
    for b in ["S1", "S2", "S3"] {
        poison_at(o, b, c, "container", "tag on a struct", &["tag = \"t\""], Some("deny_unknown_fields"), tier);
    }
    // from / try_from
    for b in ["S1", "UE"] {
        for p in [
            ["from(String) = cf", "from(String) = cf"],
            ["from(String) = cf", "from(u8) = cf"],
            ["try_from(String) = ct -> Cerr", "try_from(String) = ct -> Cerr"],
            ["try_from(String) = ct -> Cerr", "try_from(u8) = ct -> Cerr"],
        ] {
            poison_at(o, b, c, "container", "from / try_from given twice", &p, Some("error = Err2"), tier);
        }
        for p in [
            ["from(String) = cf", "try_from(String) = ct -> Cerr"],
            ["try_from(String) = ct -> Cerr", "from(String) = cf"],
        ] {
            poison_at(o, b, c, "container", "from together with try_from", &p, Some("error = Err2"), tier);
        }
        poison_at(o, b, c, "container", "from with an error type", &["from(String) = cf -> Cerr"], Some("error = Err2"), tier);
        poison_at(o, b, c, "container", "try_from without an error type", &["try_from(String) = ct"], Some("error = Err2"), tier);
        for other in ["rename_all = camelCase", "rename_all = lowercase", "deny_unknown_fields", "deny_unknown_fields = unk"] {
            poison_at(o, b, c, "container", &format!("try_from together with `{other}`"), &["try_from(String) = ct -> Cerr", other], Some("error = Err2"), tier);
            poison_at(o, b, c, "container", &format!("try_from together with `{other}`"), &[other, "try_from(String) = ct -> Cerr"], Some("error = Err2"), tier);
        }
    }
    poison_at(o, "TE", c, "container", "try_from together with tag", &["try_from(String) = ct -> Cerr"], Some("error = Err2"), tier);
    poison_at(o, "CT", c, "container", "try_from together with tag", &["tag = \"t\""], Some("error = Err2"), tier);
    poison_at(o, "CT", c, "container", "try_from together with rename_all", &["rename_all = camelCase"], Some("error = Err2"), tier);
    poison_at(o, "CT", c, "container", "try_from together with deny_unknown_fields", &["deny_unknown_fields"], Some("error = Err2"), tier);
    poison_at(o, "CF", c, "container", "from given twice", &["from(String) = cf"], Some("error = Err2"), tier);
    poison_at(o, "CF", c, "container", "from together with try_from", &["try_from(String) = ct -> Cerr"], Some("error = Err2"), tier);

    // ----- variant level -----
    for (b, vi) in [("UE", 0usize), ("UE", 1), ("TE", 0), ("TE", 1)] {
        let pos = Pos::Member(vi);
        let unrel = Some("rename_all = lowercase");
        for p in [["bogus"], ["default"], ["skip"], ["tag = \"x\""], ["error = Err2"], ["deny_unknown_fields"], ["Rename = \"x\""], ["reñame = \"x\""], ["αβ"], ["имя"], ["r"]] {
            poison_at(o, b, pos, "variant", &format!("unknown variant attribute `{}`", p[0]), &p, unrel, tier);
        }
        for p in [["rename = \"x\"", "rename = \"x\""], ["rename = \"x\"", "rename = \"y\""]] {
            poison_at(o, b, pos, "variant", "variant rename given twice", &p, unrel, tier);
        }
        for p in [["rename_all = camelCase", "rename_all = camelCase"], ["rename_all = camelCase", "rename_all = lowercase"]] {
            poison_at(o, b, pos, "variant", "variant rename_all given twice", &p, Some("rename = \"r\""), tier);
        }
        for p in [["rename \"x\""], ["rename ="], ["rename = x"], ["rename = 3"], ["rename"], ["rename_all = snake_case"], ["rename = \"a\" \"b\""]] {
            poison_at(o, b, pos, "variant", &format!("malformed variant attribute `{}`", p[0]), &p, None, tier);
        }
        raw_at(o, b, pos, "variant", "malformed: #[deserr] on a variant", "#[deserr]");
        raw_at(o, b, pos, "variant", "malformed: #[deserr(,)] on a variant", "#[deserr(,)]");
    }

    // ----- field level -----
    for (b, pos) in [("S1", Pos::Member(0)), ("S2", Pos::Member(1)), ("S3", Pos::Member(0)), ("TE", Pos::Inner(1, 0)), ("TE", Pos::Inner(1, 1))] {
        let unrel = Some("needs_predicate");
        for p in [["bogus"], ["rename_all = camelCase"], ["tag = \"t\""], ["deny_unknown_fields"], ["validate = val -> Cerr"], ["Default"], ["flatten"], ["reñame = \"x\""], ["défaut"], ["αβ"], ["ск"], ["日本"], ["d"]] {
            poison_at(o, b, pos, "field", &format!("unknown field attribute `{}`", p[0]), &p, unrel, tier);
        }
        for p in [
            ["rename = \"x\"", "rename = \"x\""],
            ["rename = \"x\"", "rename = \"y\""],
            ["default", "default"],
            ["default", "default = 3"],
            ["default = 3", "default"],
            ["default = 3", "default = 4"],
            ["missing_field_error = miss", "missing_field_error = miss"],
            ["error = Err2", "error = Err2"],
            ["error = Err2", "error = Err3"],
            ["map = fmap", "map = fmap"],
            ["from(String) = ffrom", "from(String) = ffrom"],
            ["from(String) = ffrom", "from(u8) = fmap"],
            ["try_from(String) = ftry -> Cerr", "try_from(String) = ftry -> Cerr"],
        ] {
            poison_at(o, b, pos, "field", &format!("field `{}` given twice", p[0].split([' ', '(']).next().unwrap()), &p, unrel, tier);
        }
        for p in [
            ["from(String) = ffrom", "try_from(String) = ftry -> Cerr"],
            ["try_from(String) = ftry -> Cerr", "from(String) = ffrom"],
        ] {
            poison_at(o, b, pos, "field", "field from together with try_from", &p, unrel, tier);
        }
        for p in [
            ["rename \"x\""],
            ["rename ="],
            ["rename = 3"],
            ["rename = x"],
            ["rename"],
            ["default ="],
            ["skip = true"],
            ["map"],
            ["map ="],
            ["map = 3"],
            ["rename = \"a\" \"b\""],
            ["missing_field_error"],
            ["from(String)"],
            ["from = ffrom"],
            ["try_from(String) = ftry"],
            // an error type is part of try_from only
            ["from(String) = ffrom -> Cerr"],
            ["from(&String) = ffrom_ref -> Cerr"],
            ["map = fmap -> Cerr"],
            ["error"],
            ["needs_predicate = true"],
            ["skip default"],
        ] {
            poison_at(o, b, pos, "field", &format!("malformed field attribute `{}`", p[0]), &p, None, tier);
        }
        raw_at(o, b, pos, "field", "malformed: #[deserr] on a field", "#[deserr]");
        raw_at(o, b, pos, "field", "malformed: #[deserr = \"x\"] on a field", "#[deserr = \"x\"]");
        raw_at(o, b, pos, "field", "malformed: #[deserr(,)] on a field", "#[deserr(,)]");
    }

    // ----- field / variant attributes under a container from / try_from -----
    for b in ["CF", "CT"] {
        let pos = Pos::Member(0);
        poison_at(o, b, pos, "field-under-conversion", "unknown field attribute under container from/try_from", &["bogus"], None, tier);
        poison_at(o, b, pos, "field-under-conversion", "field rename given twice under container from/try_from", &["rename = \"x\"", "rename = \"y\""], None, tier);
        poison_at(o, b, pos, "field-under-conversion", "malformed field attribute under container from/try_from", &["rename ="], None, tier);
        poison_at(o, b, pos, "field-under-conversion", "field from together with try_from under container from/try_from", &["from(String) = ffrom", "try_from(String) = ftry -> Cerr"], None, tier);
    }
    // positional fields of tuple structs / tuple variants are legitimate under a container from /
    // try_from; their attributes must be checked all the same
    for (cause, attr) in [
        ("unknown attribute on a positional field under container from", "#[deserr(bogus)]"),
        ("rename given twice on a positional field under container from", "#[deserr(rename = \"x\", rename = \"y\")]"),
        ("malformed attribute on a positional field under container from", "#[deserr(rename =)]"),
        ("from together with try_from on a positional field under container from", "#[deserr(from(String) = ffrom, try_from(String) = ftry -> Cerr)]"),
    ] {
        let mut it = base("CF");
        it.body = Some(format!("({attr} pub u8);"));
        o.push(Program { cause: format!("{cause} [tuple struct]"), level: "field-under-conversion", placement: "verbatim".into(), item: it });
        let mut it = base("CT");
        it.body = Some(format!("(pub u8, {attr} pub String);"));
        o.push(Program { cause: format!("{cause} [tuple struct, try_from]"), level: "field-under-conversion", placement: "verbatim".into(), item: it });
        let mut it = base("CE");
        it.members.push(field(&format!("T({attr} u8)")));
        o.push(Program { cause: format!("{cause} [tuple variant]"), level: "field-under-conversion", placement: "verbatim".into(), item: it });
    }
    poison_at(o, "CE", Pos::Member(1), "variant-under-conversion", "unknown variant attribute under container from", &["bogus"], None, tier);
    poison_at(o, "CE", Pos::Member(1), "variant-under-conversion", "variant rename given twice under container from", &["rename = \"x\"", "rename = \"y\""], None, tier);
    out
}

/// Valid programs: every base item, and every base item with each valid
/// attribute of the grammar (alone, spread over attributes, with a trailing comma).
fn clean_programs() -> Vec<Program> {
    let mut out = vec![];
    for b in bases() {
        out.push(Program { cause: format!("base {}", b.base), level: "valid", placement: "plain".into(), item: b });
    }
    // tuple struct / tuple variant under a container from, with a valid attribute on the positional field
    {
        let mut it = base("CF");
        it.body = Some("(#[deserr(rename = \"x\")] pub u8);".into());
        out.push(Program { cause: "valid tuple struct under container from".into(), level: "valid", placement: "plain".into(), item: it });
        let mut it = base("CE");
        it.members.push(field("T(#[deserr(default)] u8)"));
        out.push(Program { cause: "valid tuple variant under container from".into(), level: "valid", placement: "plain".into(), item: it });
    }
    // field-less brace shapes are valid where named data is
    {
        let empty = |name: &str| Member { attrs: vec![], decl: name.into(), inner: Some(vec![]) };
        let mut te = base("TE");
        te.members.insert(0, empty("E0"));
        out.push(Program { cause: "valid tagged enum whose first brace variant has no field".into(), level: "valid", placement: "plain".into(), item: te });
        let mut te = base("TE");
        te.members = vec![empty("Only")];
        out.push(Program { cause: "valid tagged enum with a single field-less brace variant".into(), level: "valid", placement: "plain".into(), item: te });
        let mut s0 = base("S1");
        s0.members = vec![];
        out.push(Program { cause: "valid struct without fields".into(), level: "valid", placement: "plain".into(), item: s0 });
    }
    let mut add = |name: &str, pos: Pos, args: &[&str]| {
        let b = base(name);
        let mut probe = b.clone();
        let existing = attrs_at(&mut probe, pos).clone();
        let valid = args_of(&existing);
        let raws = raws_of(&existing);
        let args: Vec<String> = args.iter().map(|s| s.to_string()).collect();
        for (pname, attrs) in placements(&valid, &args, None) {
            let mut it = b.clone();
            let slot = attrs_at(&mut it, pos);
            *slot = raws.clone();
            slot.extend(attrs);
            out.push(Program { cause: format!("valid {args:?} [{name}]"), level: "valid", placement: pname, item: it });
        }
        // trailing comma
        let mut it = b.clone();
        let slot = attrs_at(&mut it, pos);
        *slot = raws.clone();
        let all: Vec<String> = valid.iter().chain(args.iter()).cloned().collect();
        slot.push(Attr::Raw(format!("#[deserr({},)]", all.join(", "))));
        out.push(Program { cause: format!("valid {args:?} [{name}]"), level: "valid", placement: "trailing comma".into(), item: it });
    };
    for b in ["S1", "S2", "S3", "TE"] {
        for a in [
            vec!["rename_all = camelCase"],
            vec!["rename_all = lowercase"],
            vec!["deny_unknown_fields"],
            vec!["deny_unknown_fields = unk"],
            vec!["validate = val -> Cerr"],
            vec!["error = Err2"],
            vec!["rename_all = camelCase", "deny_unknown_fields"],
            vec!["error = Err2", "rename_all = lowercase", "deny_unknown_fields"],
            vec!["where_predicate = u8: Copy"],
            vec!["where_predicate = u8: Copy", "where_predicate = u16: Copy"],
        ] {
            add(b, Pos::Container, &a);
        }
    }
    for a in [vec!["rename_all = camelCase"], vec!["rename_all = lowercase"], vec!["error = Err2"], vec!["validate = val -> Cerr"]] {
        add("UE", Pos::Container, &a);
    }
    for (b, pos) in [("S1", Pos::Member(0)), ("S2", Pos::Member(0)), ("S3", Pos::Member(0)), ("TE", Pos::Inner(1, 0))] {
        for a in [
            vec!["rename = \"x\""],
            vec!["rename = r\"x\""],
            vec!["rename = r#\"x y\"#"],
            vec!["rename = \"\\u{78}\\x79\\t\""],
            vec!["default"],
            vec!["default = 3"],
            vec!["skip"],
            vec!["map = fmap"],
            vec!["from(String) = ffrom"],
            vec!["try_from(String) = ftry -> Cerr"],
            vec!["missing_field_error = miss"],
            vec!["needs_predicate"],
            vec!["rename = \"x\"", "default"],
            vec!["default = 3", "map = fmap"],
            vec!["skip", "default = 3"],
            vec!["skip", "skip"],
            vec!["needs_predicate", "needs_predicate"],
        ] {
            add(b, pos, &a);
        }
    }
    for (b, vi) in [("UE", 0usize), ("TE", 1)] {
        for a in [vec!["rename = \"x\""], vec!["rename_all = camelCase"], vec!["rename = \"x\"", "rename_all = lowercase"]] {
            add(b, Pos::Member(vi), &a);
        }
    }
    out
}

// ---------- crate generation and compilation ----------

struct Compiled {
    /// per program: diagnostics attributed to its lines
    diags: Vec<Vec<Diag>>,
    unattributed: Vec<Diag>,
    success: bool,
}

#[derive(Clone, Debug)]
struct Diag {
    level: String,
    code: Option<String>,
    message: String,
    line: usize,
}

fn write_crate(dir: &Path, name: &str, progs: &[Program]) -> Vec<(usize, usize)> {
    let _ = std::fs::remove_dir_all(dir);
    std::fs::create_dir_all(dir.join("src")).unwrap();
    std::fs::write(
        dir.join("Cargo.toml"),
        format!(
            "[package]\nname = \"{name}\"\nversion = \"0.1.0\"\nedition = \"2021\"\n\n[dependencies]\ndeserr = {{ path = \"{}\" }}\n\n[workspace]\n",
            repo_root().display()
        ),
    )
    .unwrap();
    std::fs::copy(repo_root().join("Cargo.lock"), dir.join("Cargo.lock")).unwrap();
    let mut src = String::from(PRELUDE);
    let mut ranges = vec![];
    for (i, p) in progs.iter().enumerate() {
        let start = src.lines().count() + 1;
        src.push_str(&format!("// ITEM {i}: {} / {} / {}\n", p.level, p.cause.replace('\n', " "), p.placement));
        src.push_str(&p.item.render(&format!("I{i}")));
        let end = src.lines().count();
        src.push('\n');
        ranges.push((start, end));
    }
    std::fs::write(dir.join("src/lib.rs"), src).unwrap();
    ranges
}

fn repo_root() -> PathBuf {
    std::env::var("VERIF_REPO").map(PathBuf::from).unwrap_or_else(|_| PathBuf::from("/repo"))
}

fn compile(dir: &Path, target: &Path, ranges: &[(usize, usize)]) -> Result<Compiled, String> {
    let out = Command::new("cargo")
        .arg("check")
        .arg("--offline")
        .arg("--message-format=json")
        .arg("--manifest-path")
        .arg(dir.join("Cargo.toml"))
        .env("CARGO_TARGET_DIR", target)
        .env("CARGO_NET_OFFLINE", "true")
        .output()
        .map_err(|e| format!("cannot run cargo: {e}"))?;
    let stdout = String::from_utf8_lossy(&out.stdout);
    let mut diags: Vec<Vec<Diag>> = vec![vec![]; ranges.len()];
    let mut unattributed = vec![];
    let mut saw_crate = false;
    for line in stdout.lines() {
        let Ok(j) = serde_json::from_str::<serde_json::Value>(line) else { continue };
        if j["reason"] == "build-finished" {
            continue;
        }
        if j["reason"] != "compiler-message" {
            continue;
        }
        let m = &j["message"];
        let is_ours = j["target"]["src_path"].as_str().map(|p| p.starts_with(dir.to_str().unwrap())).unwrap_or(false);
        if !is_ours {
            // a diagnostic in deserr itself or a dependency
            if m["level"] == "error" {
                return Err(format!("dependency failed to compile: {}", m["message"]));
            }
            continue;
        }
        saw_crate = true;
        let level = m["level"].as_str().unwrap_or("").to_string();
        let message = m["message"].as_str().unwrap_or("").to_string();
        let code = m["code"]["code"].as_str().map(|s| s.to_string());
        // primary span in src/lib.rs
        let spans = m["spans"].as_array().cloned().unwrap_or_default();
        let line = spans
            .iter()
            .filter(|s| s["file_name"].as_str().map(|f| f.ends_with("src/lib.rs")).unwrap_or(false))
            .find(|s| s["is_primary"].as_bool().unwrap_or(false))
            .or(spans.iter().find(|s| s["file_name"].as_str().map(|f| f.ends_with("src/lib.rs")).unwrap_or(false)))
            .and_then(|s| s["line_start"].as_u64())
            .unwrap_or(0) as usize;
        let d = Diag { level, code, message, line };
        match ranges.iter().position(|(a, b)| line >= *a && line <= *b) {
            Some(i) => diags[i].push(d),
            None => unattributed.push(d),
        }
    }
    let stderr = String::from_utf8_lossy(&out.stderr);
    if !saw_crate && !out.status.success() {
        return Err(format!("cargo check failed before reaching the generated crate:\n{}", stderr.lines().rev().take(15).collect::<Vec<_>>().join("\n")));
    }
    Ok(Compiled { diags, unattributed, success: out.status.success() })
}

fn main() {
    let args: Vec<String> = std::env::args().collect();
    let tier = match args.get(1).map(|s| s.as_str()) {
        Some("thorough") => Tier::Thorough,
        _ => Tier::Quick,
    };
    let rec = Recorder::new("C16", tier);
    let work = verif_root().join("harness/target/c16");
    let target = verif_root().join("harness/target/c16-target");

    // ---- sanity: the valid programs compile cleanly (otherwise: machinery error, not a verdict) ----
    let clean = clean_programs();
    let ranges = write_crate(&work.join("clean"), "c16-clean", &clean);
    let cc = match compile(&work.join("clean"), &target, &ranges) {
        Ok(c) => c,
        Err(e) => {
            eprintln!("MACHINERY ERROR: {e}");
            std::process::exit(2);
        }
    };
    let mut clean_errors = vec![];
    for (i, ds) in cc.diags.iter().enumerate() {
        for d in ds.iter().filter(|d| d.level == "error") {
            clean_errors.push(format!("item {i} ({} / {}): {}", clean[i].cause, clean[i].placement, d.message));
        }
    }
    for d in cc.unattributed.iter().filter(|d| d.level == "error" && !d.message.starts_with("aborting") && !d.message.starts_with("could not compile")) {
        clean_errors.push(format!("unattributed: {}", d.message));
    }
    if !cc.success || !clean_errors.is_empty() {
        // A valid program that the derive rejects: either the harness grammar is wrong or the
        // derive rejects something it documents. Reported as a violation of C16's sanity side
        // only if the derive issued the error; rustc type errors are machinery errors.
        eprintln!("MACHINERY ERROR: the crate of valid programs does not compile cleanly:");
        for e in clean_errors.iter().take(20) {
            eprintln!("  {e}");
        }
        std::process::exit(2);
    }

    // ---- the poisoned programs ----
    let progs = programs(tier);
    let ranges = write_crate(&work.join("poison"), "c16-poison", &progs);
    let pc = match compile(&work.join("poison"), &target, &ranges) {
        Ok(c) => c,
        Err(e) => {
            eprintln!("MACHINERY ERROR: {e}");
            std::process::exit(2);
        }
    };
    let mut distinct_msgs: HashSet<u64> = HashSet::new();
    let mut by_cause: BTreeMap<String, (usize, usize)> = BTreeMap::new();
    for (i, p) in progs.iter().enumerate() {
        let ds = &pc.diags[i];
        let panicked = ds.iter().find(|d| d.message.contains("proc-macro derive panicked") || d.message.contains("proc macro panicked"));
        // issued by the derive: error level, no rustc error code
        let derive_err = ds.iter().find(|d| d.level == "error" && d.code.is_none() && !d.message.contains("panicked"));
        let any_err = ds.iter().find(|d| d.level == "error");
        let e = by_cause.entry(format!("{}: {}", p.level, p.cause)).or_insert((0, 0));
        e.0 += 1;
        let src = p.item.render(&format!("I{i}"));
        let verdict: Option<String> = if let Some(d) = panicked {
            Some(format!("the derive panicked instead of issuing a diagnostic: {}", d.message))
        } else if let Some(d) = derive_err {
            distinct_msgs.insert(hash64(&d.message));
            e.1 += 1;
            None
        } else if let Some(d) = any_err {
            // rejected, but only by rustc after expansion (e.g. a type error in generated code):
            // not a diagnostic issued by the derive
            Some(format!("not rejected by the derive; rustc later reported: {} [{}]", d.message, d.code.clone().unwrap_or_default()))
        } else {
            Some("compiles without any diagnostic: the derive silently accepted it".to_string())
        };
        if let Some(v) = verdict {
            rec.violation(Violation {
                property: "C16".into(),
                subject: format!("{}: {}", p.level, p.cause),
                message: format!("{v}\n  cause: {} ({})\n  placement: {}\n{}", p.cause, p.level, p.placement, src.lines().map(|l| format!("    {l}")).collect::<Vec<_>>().join("\n")),
                replay: json!({"kind": "c16", "cause": p.cause, "level": p.level, "placement": p.placement, "source": src,
                               "prelude": "see mc-reject/src/main.rs PRELUDE", "diagnostics": ds.iter().map(|d| format!("{}: {}", d.level, d.message)).collect::<Vec<_>>()}),
            });
        }
        if rec.want_sample() && i % 97 == 0 {
            rec.sample(json!({"cause": p.cause, "level": p.level, "placement": p.placement, "source": src,
                              "diagnostics": ds.iter().map(|d| format!("{}: {}", d.level, d.message)).collect::<Vec<_>>()}));
        }
    }
    let causes = by_cause.len();
    rec.add_counts(causes as u64, progs.len() as u64, (progs.len() + clean.len()) as u64);
    rec.add_signatures(&distinct_msgs, &distinct_msgs);
    rec.set_extra("programs", json!(progs.len()));
    rec.set_extra("valid_programs_compiled_cleanly", json!(clean.len()));
    rec.set_extra("rejection_causes", json!(causes));
    rec.set_extra(
        "rejected_per_cause",
        json!(by_cause.iter().map(|(k, (n, r))| format!("{k}: {r}/{n}")).collect::<Vec<_>>()),
    );
    let code = rec.finish(
        "model_checking",
        "programs = derive inputs enumerated from a grammar: 9 valid base items (structs with 1–3 fields, generic struct, unit enum, tagged enum, container from / try_from items) × every rejection cause of the statement at container, variant and field level (unsupported shapes; unknown attribute; every single-valued attribute given twice with equal and different values; from with try_from in both orders; tag on a struct; container try_from with rename_all / tag / deny_unknown_fields in both orders; invalid rename_all values; malformed syntax that still tokenises) × placements (one attribute, one attribute per argument, with an unrelated valid argument before / after / between). states = distinct (level, cause) pairs, transitions = programs. Every program is compiled by the real rustc with the real proc-macro (one cargo check --message-format=json run); oracle: ≥ 1 error diagnostic without rustc error code attributed to the item's lines, and no proc-macro panic. Vacuity guard: a second crate with every base item and every valid attribute of the grammar (all placements, trailing commas) must compile cleanly, else exit 2. distinct = distinct derive diagnostics.",
        &[
            "a diagnostic is classified as issued by the derive by its JSON shape: level error, no rustc error code, not a panic",
            "rustc stops after macro expansion when any derive fails, so a silently accepted item shows up as `no diagnostic on its lines`",
        ],
    );
    std::process::exit(code);
}
