fn main() {
    let e = cat_quick::entries();
    let cat = mc_desc::catalogue::build(mc_desc::catalogue::Tier::Quick);
    println!("entries {} roots {} items {}", e.len(), cat.roots.len(), cat.items.len());
}
