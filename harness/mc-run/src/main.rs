fn main() {
    let entries = cat_quick::entries();
    let cat = mc_desc::catalogue::build(mc_desc::catalogue::Tier::Quick);
    assert_eq!(entries.len(), cat.roots.len());
    std::process::exit(mc_core::main_with(entries, cat));
}
