fn main() {
    let entries = cat_quick::entries();
    let cat = if cat_quick::REDUCED {
        println!("NOTE: reduced catalogue — the full catalogue does not compile against this tree");
        mc_desc::catalogue::build_reduced(mc_desc::catalogue::Tier::Quick)
    } else {
        mc_desc::catalogue::build(mc_desc::catalogue::Tier::Quick)
    };
    mc_core::names::set_wide_probe(cat_wide::wide_names_probe);
    assert_eq!(entries.len(), cat.roots.len());
    std::process::exit(mc_core::main_with(entries, cat));
}
