use std::{env, fs, path::Path};

fn main() {
    // one generated unit enum with 4096 variants and its probe (C10, names as a language); a crate
    // of its own so that it can be compiled optimised (the 4096-arm string match is hot)
    let src = format!("use deserr::Deserr;\nuse mc_core::prelude::*;\n{}", mc_desc::emit::emit_wide_names());
    let out = Path::new(&env::var("OUT_DIR").unwrap()).join("wide.rs");
    fs::write(out, src).unwrap();
    println!("cargo:rerun-if-changed=build.rs");
}
