#![allow(dead_code, non_snake_case, non_camel_case_types, unused_imports, clippy::all)]
include!(concat!(env!("OUT_DIR"), "/wide.rs"));
