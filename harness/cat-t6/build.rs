use std::{env, fs, path::Path};

fn main() {
    // shard 6 of 8 of the thorough catalogue
    let cat = mc_desc::catalogue::build(mc_desc::catalogue::Tier::Thorough);
    let src = mc_desc::emit::emit_catalogue_shard(&cat, 6, 8);
    let out = Path::new(&env::var("OUT_DIR").unwrap()).join("cat.rs");
    fs::write(out, src).unwrap();
    println!("cargo:rerun-if-changed=build.rs");
}
