fn main() {
    for t in [mc_desc::catalogue::Tier::Quick, mc_desc::catalogue::Tier::Thorough] {
        let c = mc_desc::catalogue::build(t);
        let mut g = std::collections::BTreeMap::new();
        for r in &c.roots { *g.entry(r.group).or_insert(0) += 1; }
        println!("{t:?}: roots {} items {} {:?}", c.roots.len(), c.items.len(), g);
    }
}
