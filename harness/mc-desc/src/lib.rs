//! Specifications of the catalogue of target types ("programs") explored by the
//! model checker, and the emitter that turns a specification into Rust source
//! (the item with `#[derive(Deserr)]`, its `Dump` impl, and the table of entry
//! points).  The same enumeration is run at build time (by the catalogue crates'
//! build scripts, to emit code) and at run time (by the engine, to obtain the
//! descriptors) — it is deterministic, so index `i` means the same type in both.
//!
//! The descriptor records what was *written* (identifier, rename, rename_all,
//! skip, default…), never an effective key: effective keys are computed
//! independently by the reference interpreter in mc-core.

pub mod catalogue;
pub mod emit;

#[derive(Clone, Copy, Debug, PartialEq, Eq, Hash, PartialOrd, Ord)]
pub enum Scalar {
    Unit,
    Bool,
    Char,
    Str,
    U8,
    U16,
    U32,
    U64,
    U128,
    Usize,
    I8,
    I16,
    I32,
    I64,
    I128,
    Isize,
    NzU8,
    NzU16,
    NzU32,
    NzU64,
    NzU128,
    NzUsize,
    NzI8,
    NzI16,
    NzI32,
    NzI64,
    NzI128,
    NzIsize,
    F32,
    F64,
}

impl Scalar {
    pub const ALL: [Scalar; 30] = [
        Scalar::Unit,
        Scalar::Bool,
        Scalar::Char,
        Scalar::Str,
        Scalar::U8,
        Scalar::U16,
        Scalar::U32,
        Scalar::U64,
        Scalar::U128,
        Scalar::Usize,
        Scalar::I8,
        Scalar::I16,
        Scalar::I32,
        Scalar::I64,
        Scalar::I128,
        Scalar::Isize,
        Scalar::NzU8,
        Scalar::NzU16,
        Scalar::NzU32,
        Scalar::NzU64,
        Scalar::NzU128,
        Scalar::NzUsize,
        Scalar::NzI8,
        Scalar::NzI16,
        Scalar::NzI32,
        Scalar::NzI64,
        Scalar::NzI128,
        Scalar::NzIsize,
        Scalar::F32,
        Scalar::F64,
    ];

    pub fn rust(self) -> &'static str {
        use Scalar::*;
        match self {
            Unit => "()",
            Bool => "bool",
            Char => "char",
            Str => "String",
            U8 => "u8",
            U16 => "u16",
            U32 => "u32",
            U64 => "u64",
            U128 => "u128",
            Usize => "usize",
            I8 => "i8",
            I16 => "i16",
            I32 => "i32",
            I64 => "i64",
            I128 => "i128",
            Isize => "isize",
            NzU8 => "::std::num::NonZeroU8",
            NzU16 => "::std::num::NonZeroU16",
            NzU32 => "::std::num::NonZeroU32",
            NzU64 => "::std::num::NonZeroU64",
            NzU128 => "::std::num::NonZeroU128",
            NzUsize => "::std::num::NonZeroUsize",
            NzI8 => "::std::num::NonZeroI8",
            NzI16 => "::std::num::NonZeroI16",
            NzI32 => "::std::num::NonZeroI32",
            NzI64 => "::std::num::NonZeroI64",
            NzI128 => "::std::num::NonZeroI128",
            NzIsize => "::std::num::NonZeroIsize",
            F32 => "f32",
            F64 => "f64",
        }
    }

    /// (signed, bits, nonzero) for the integer targets.
    pub fn int_shape(self) -> Option<(bool, u32, bool)> {
        use Scalar::*;
        Some(match self {
            U8 => (false, 8, false),
            U16 => (false, 16, false),
            U32 => (false, 32, false),
            U64 => (false, 64, false),
            U128 => (false, 128, false),
            Usize => (false, usize::BITS, false),
            I8 => (true, 8, false),
            I16 => (true, 16, false),
            I32 => (true, 32, false),
            I64 => (true, 64, false),
            I128 => (true, 128, false),
            Isize => (true, isize::BITS, false),
            NzU8 => (false, 8, true),
            NzU16 => (false, 16, true),
            NzU32 => (false, 32, true),
            NzU64 => (false, 64, true),
            NzU128 => (false, 128, true),
            NzUsize => (false, usize::BITS, true),
            NzI8 => (true, 8, true),
            NzI16 => (true, 16, true),
            NzI32 => (true, 32, true),
            NzI64 => (true, 64, true),
            NzI128 => (true, 128, true),
            NzIsize => (true, isize::BITS, true),
            _ => return None,
        })
    }
}

#[derive(Clone, Copy, Debug, PartialEq, Eq, Hash)]
pub enum KeyTy {
    Str,
    U8,
    I32,
    Bool,
    Char,
    /// `Gk<String>`: a user key type that is generic over a path-qualified type and parses like `u8`
    Gen,
}

impl KeyTy {
    pub fn rust(self) -> &'static str {
        match self {
            KeyTy::Str => "String",
            KeyTy::U8 => "u8",
            KeyTy::I32 => "i32",
            KeyTy::Bool => "bool",
            KeyTy::Char => "char",
            KeyTy::Gen => "Gk<String>",
        }
    }
}

#[derive(Clone, Debug, PartialEq, Eq, Hash)]
pub enum Ty {
    Sc(Scalar),
    /// `serde_json::Value` as a *target*
    Json,
    /// `PhantomData<u8>`: accepts any value at all and carries nothing
    Phantom,
    /// the probe wrapper `P<T>` (mc-core)
    P(Box<Ty>),
    Opt(Box<Ty>),
    Bx(Box<Ty>),
    Vec(Box<Ty>),
    HSet(Box<Ty>),
    BSet(Box<Ty>),
    Arr(Box<Ty>, usize),
    Tup(Vec<Ty>),
    Map { hashed: bool, key: KeyTy, val: Box<Ty> },
    /// `serde_cs::vec::CS<K>`
    Cs(KeyTy),
    /// a generated item (index into `Catalogue::items`)
    Item(usize),
}

pub fn p(t: Ty) -> Ty {
    Ty::P(Box::new(t))
}
pub fn sc(s: Scalar) -> Ty {
    Ty::Sc(s)
}
pub fn pu8() -> Ty {
    p(sc(Scalar::U8))
}
pub fn opt(t: Ty) -> Ty {
    Ty::Opt(Box::new(t))
}
pub fn bx(t: Ty) -> Ty {
    Ty::Bx(Box::new(t))
}
pub fn vec_of(t: Ty) -> Ty {
    Ty::Vec(Box::new(t))
}

#[derive(Clone, Copy, Debug, PartialEq, Eq, Hash)]
pub enum RenameAll {
    Camel,
    Lower,
}

#[derive(Clone, Copy, Debug, PartialEq, Eq, Hash)]
pub enum Deny {
    No,
    Default,
    Custom,
    /// `deny_unknown_fields = f` where `f` returns a foreign error (`ConvErr`)
    CustomForeign,
}

#[derive(Clone, Copy, Debug, PartialEq, Eq, Hash)]
pub enum DefaultSpec {
    None,
    Trait,
    Expr,
}

#[derive(Clone, Copy, Debug, PartialEq, Eq, Hash)]
pub enum Conv {
    None,
    From { by_ref: bool },
    TryFrom { by_ref: bool },
}

#[derive(Clone, Debug, PartialEq, Eq, Hash)]
pub struct FieldSpec {
    pub ident: String,
    /// The type that is deserialized from the payload: the declared type of the
    /// field, or — with `from`/`try_from` — the intermediate type (then the
    /// declared type is `Cv`).
    pub ty: Ty,
    pub rename: Option<String>,
    pub default: DefaultSpec,
    pub skip: bool,
    pub conv: Conv,
    pub map: bool,
    pub missing_fn: bool,
    /// with `missing_fn`: the function returns a *foreign* error (`ConvErr`), which the derive
    /// hands to the container's error type through `MergeWithError<ConvErr>`
    pub missing_foreign: bool,
    /// `#[deserr(error = RecB)]` on the field
    pub err_b: bool,
    /// a `#[serde(rename = "..")]` helper attribute next to the deserr ones: registered by the
    /// derive, and without any effect on the keys
    pub serde_rename: Option<String>,
    /// with a conversion: the declared type of the field is `Option<Cv>` (the function returns
    /// `Some(..)`), so the field is *spelled* like an optional one although its intermediate type
    /// decides what the payload may hold
    pub conv_opt_decl: bool,
    /// with a conversion: the declared type of the field is the intermediate type itself (`P<u8>`),
    /// the function maps `P<u8>` to `P<u8>`
    pub conv_same_decl: bool,
}

impl FieldSpec {
    pub fn plain(ident: &str, ty: Ty) -> Self {
        FieldSpec {
            ident: ident.to_string(),
            ty,
            rename: None,
            default: DefaultSpec::None,
            skip: false,
            conv: Conv::None,
            map: false,
            missing_fn: false,
            missing_foreign: false,
            err_b: false,
            serde_rename: None,
            conv_opt_decl: false,
            conv_same_decl: false,
        }
    }
    pub fn has_default(&self) -> bool {
        self.default != DefaultSpec::None
    }
}

#[derive(Clone, Debug, PartialEq, Eq, Hash)]
pub struct StructSpec {
    /// how attribute arguments are written: 0 = one `#[deserr(..)]` in canonical order, 1 = one
    /// attribute in reverse order, 2 = one attribute per argument, 3 = reverse order, one per
    /// argument (same meaning; the parser must not care)
    pub style: u8,
    pub rename_all: Option<RenameAll>,
    pub deny: Deny,
    pub validate: bool,
    /// `#[deserr(error = RecA)]` (otherwise generic over the error type)
    pub concrete: bool,
    /// declared as `struct S<T>` whose first field has the declared type `T` (with
    /// `needs_predicate`); every use instantiates `T` with that field's `ty`
    pub generic: bool,
    /// shape of the generics when `generic`: 0 = `<T>`; 1 = `<T, const N: usize>` (the last field is
    /// declared `[P<u8>; N]`); 2 = `<T, U> where T: Debug` (the second field is declared `P<Vec<U>>`)
    pub generic_kind: u8,
    /// the `validate` function returns the container's own error type (`-> __Deserr_E` / `-> RecA`)
    /// instead of the foreign `ValErr`
    pub same_err: bool,
    pub fields: Vec<FieldSpec>,
}

impl StructSpec {
    pub fn plain(fields: Vec<FieldSpec>) -> Self {
        StructSpec { style: 0, rename_all: None, deny: Deny::No, validate: false, concrete: false, generic: false, generic_kind: 0, same_err: false, fields }
    }
}

#[derive(Clone, Debug, PartialEq, Eq, Hash)]
pub struct VariantSpec {
    pub ident: String,
    pub rename: Option<String>,
    pub rename_all: Option<RenameAll>,
    /// `None` = unit variant
    pub fields: Option<Vec<FieldSpec>>,
}

#[derive(Clone, Debug, PartialEq, Eq, Hash)]
pub struct EnumSpec {
    /// see `StructSpec::style`
    pub style: u8,
    /// `None` = unit-only enum read from a string
    pub tag: Option<String>,
    pub rename_all: Option<RenameAll>,
    pub deny: Deny,
    pub validate: bool,
    pub concrete: bool,
    /// see `StructSpec::same_err`
    pub same_err: bool,
    /// declared as `enum E<T>`: the first field of the second variant has the declared type `T`
    pub generic: bool,
    pub variants: Vec<VariantSpec>,
}

/// Container-level `from` / `try_from`: the item is `struct Cn { d: Doc }` built
/// by a generated function from the intermediate value's dump.
#[derive(Clone, Debug, PartialEq, Eq, Hash)]
pub struct ConvSpec {
    pub via: Ty,
    pub fallible: bool,
    pub by_ref: bool,
    pub validate: bool,
    pub concrete: bool,
    /// the `try_from` (and `validate`) functions return the container's own error type
    pub same_err: bool,
}

#[derive(Clone, Debug, PartialEq, Eq, Hash)]
pub enum Item {
    Struct(StructSpec),
    Enum(EnumSpec),
    Conv(ConvSpec),
}

#[derive(Clone, Debug)]
pub struct Root {
    pub ty: Ty,
    pub group: &'static str,
    pub note: String,
}

#[derive(Clone, Debug, Default)]
pub struct Catalogue {
    pub items: Vec<Item>,
    pub roots: Vec<Root>,
}

impl Catalogue {
    pub fn item_name(&self, i: usize) -> String {
        match &self.items[i] {
            Item::Struct(_) => format!("S{i}"),
            Item::Enum(_) => format!("E{i}"),
            Item::Conv(_) => format!("C{i}"),
        }
    }

    /// Adds an item (deduplicated structurally) and returns its index.
    pub fn add(&mut self, item: Item) -> usize {
        let item = self.fix_concrete(item);
        if let Some(i) = self.items.iter().position(|x| *x == item) {
            return i;
        }
        self.items.push(item);
        self.items.len() - 1
    }

    pub fn root(&mut self, ty: Ty, group: &'static str, note: impl Into<String>) {
        assert!(probed(&ty), "root type must be probed: {ty:?}");
        check_probes(&ty, self);
        if self.roots.iter().any(|r| r.ty == ty) {
            return;
        }
        self.roots.push(Root { ty, group, note: note.into() });
    }

    /// Reserves the next index for a (possibly self-referential) item built by `f`.
    pub fn add_rec(&mut self, f: impl FnOnce(usize) -> Item) -> usize {
        let idx = self.items.len();
        let item = f(idx);
        self.items.push(item);
        idx
    }

    /// Whether the impl generated for item `i` carries bounds beyond
    /// `E: DeserializeError` (MergeWithError<ConvErr|ValErr>), or is concrete:
    /// in both cases an enclosing derived type must name a concrete error type.
    pub fn item_constrains_parent(&self, i: usize) -> bool {
        self.item_constrains_(i, &mut vec![])
    }

    fn item_constrains_(&self, i: usize, seen: &mut Vec<usize>) -> bool {
        if seen.contains(&i) {
            return false;
        }
        seen.push(i);
        match &self.items[i] {
            Item::Struct(s) => {
                s.concrete
                    || (s.validate && !s.same_err)
                    || s.deny == Deny::CustomForeign
                    || s.fields.iter().any(|f| f.missing_foreign)
                    || s.fields.iter().any(|f| matches!(f.conv, Conv::TryFrom { .. }))
                    || s.fields.iter().any(|f| self.ty_constrains_(&f.ty, seen))
            }
            Item::Enum(e) => {
                e.concrete
                    || (e.validate && !e.same_err)
                    || e.deny == Deny::CustomForeign
                    || e.variants.iter().flat_map(|v| v.fields.iter().flatten()).any(|f| {
                        f.missing_foreign || matches!(f.conv, Conv::TryFrom { .. }) || self.ty_constrains_(&f.ty, seen)
                    })
            }
            Item::Conv(c) => c.concrete || ((c.fallible || c.validate) && !c.same_err) || self.ty_constrains_(&c.via, seen),
        }
    }

    pub fn ty_constrains(&self, t: &Ty) -> bool {
        self.ty_constrains_(t, &mut vec![])
    }

    fn ty_constrains_(&self, t: &Ty, seen: &mut Vec<usize>) -> bool {
        match t {
            Ty::Sc(_) | Ty::Json | Ty::Phantom | Ty::Cs(_) => false,
            Ty::P(t) | Ty::Opt(t) | Ty::Bx(t) | Ty::Vec(t) | Ty::HSet(t) | Ty::BSet(t) | Ty::Arr(t, _) => {
                self.ty_constrains_(t, seen)
            }
            Ty::Tup(ts) => ts.iter().any(|t| self.ty_constrains_(t, seen)),
            Ty::Map { val, .. } => self.ty_constrains_(val, seen),
            Ty::Item(i) => self.item_constrains_(*i, seen),
        }
    }

    /// Whether a root type can be instantiated with an arbitrary error type
    /// (JsonError, QueryParamError): no item in it names RecA.
    pub fn ty_generic(&self, t: &Ty) -> bool {
        self.ty_generic_(t, &mut vec![])
    }

    fn ty_generic_(&self, t: &Ty, seen: &mut Vec<usize>) -> bool {
        match t {
            Ty::Sc(_) | Ty::Json | Ty::Phantom | Ty::Cs(_) => true,
            Ty::P(t) | Ty::Opt(t) | Ty::Bx(t) | Ty::Vec(t) | Ty::HSet(t) | Ty::BSet(t) | Ty::Arr(t, _) => {
                self.ty_generic_(t, seen)
            }
            Ty::Tup(ts) => ts.iter().all(|t| self.ty_generic_(t, seen)),
            Ty::Map { val, .. } => self.ty_generic_(val, seen),
            Ty::Item(i) => {
                if seen.contains(i) {
                    return true;
                }
                seen.push(*i);
                match &self.items[*i] {
                    Item::Struct(s) => !s.concrete && s.fields.iter().all(|f| self.ty_generic_(&f.ty, seen)),
                    Item::Enum(e) => {
                        !e.concrete
                            && e.variants
                                .iter()
                                .flat_map(|v| v.fields.iter().flatten())
                                .all(|f| self.ty_generic_(&f.ty, seen))
                    }
                    Item::Conv(c) => !c.concrete && self.ty_generic_(&c.via, seen),
                }
            }
        }
    }

    /// Compile-validity rules found by probing the real derive (DESIGN.md §3.6):
    /// decides whether the item has to name a concrete error type.
    fn fix_concrete(&self, item: Item) -> Item {
        let needs_fields = |fields: &[FieldSpec], deny: Deny, validate: bool| -> bool {
            // a second `MergeWithError<_>` bound (ConvErr / ValErr) makes the error type
            // returned by a *generic* custom function ambiguous
            // (a custom function returning the foreign ConvErr adds such a bound too, but is not
            // itself ambiguous: its error type is named by its signature)
            let any_foreign = deny == Deny::CustomForeign || fields.iter().any(|f| f.missing_foreign);
            let any_try = validate || any_foreign || fields.iter().any(|f| matches!(f.conv, Conv::TryFrom { .. }));
            fields.iter().any(|f| f.err_b)
                || (any_try && (deny == Deny::Custom || fields.iter().any(|f| f.missing_fn && !f.missing_foreign)))
                || fields.iter().any(|f| self.ty_constrains(&f.ty))
        };
        match item {
            Item::Struct(mut s) => {
                if needs_fields(&s.fields, s.deny, s.validate && !s.same_err) {
                    s.concrete = true;
                }
                Item::Struct(s)
            }
            Item::Enum(mut e) => {
                let all: Vec<FieldSpec> =
                    e.variants.iter().flat_map(|v| v.fields.iter().flatten()).cloned().collect();
                if needs_fields(&all, e.deny, e.validate && !e.same_err) {
                    e.concrete = true;
                }
                Item::Enum(e)
            }
            Item::Conv(mut c) => {
                if self.ty_constrains(&c.via) {
                    c.concrete = true;
                }
                Item::Conv(c)
            }
        }
    }
}

/// A type is *probed* when a probe frame is opened before the location changes.
pub fn probed(t: &Ty) -> bool {
    match t {
        Ty::P(_) => true,
        // a marker never looks at its value: nothing to bracket
        Ty::Phantom => true,
        Ty::Opt(t) | Ty::Bx(t) => probed(t),
        _ => false,
    }
}

/// Placement rule of DESIGN.md §3.3: every position at which a `Deserr` impl is
/// invoked at a *new location* carries a probe.
pub fn check_probes(t: &Ty, cat: &Catalogue) {
    fn go(t: &Ty, cat: &Catalogue, seen: &mut Vec<usize>) {
        match t {
            Ty::Sc(_) | Ty::Json | Ty::Phantom | Ty::Cs(_) => {}
            Ty::P(t) | Ty::Opt(t) | Ty::Bx(t) => go(t, cat, seen),
            Ty::Vec(t) | Ty::HSet(t) | Ty::BSet(t) | Ty::Arr(t, _) => {
                assert!(probed(t), "element type not probed: {t:?}");
                go(t, cat, seen)
            }
            Ty::Tup(ts) => {
                for t in ts {
                    assert!(probed(t), "tuple component not probed: {t:?}");
                    go(t, cat, seen)
                }
            }
            Ty::Map { val, .. } => {
                assert!(probed(val), "map value not probed: {val:?}");
                go(val, cat, seen)
            }
            Ty::Item(i) => {
                if seen.contains(i) {
                    return;
                }
                seen.push(*i);
                match &cat.items[*i] {
                    Item::Struct(s) => {
                        for f in &s.fields {
                            assert!(probed(&f.ty), "field type not probed: {:?}", f);
                            go(&f.ty, cat, seen)
                        }
                    }
                    Item::Enum(e) => {
                        for f in e.variants.iter().flat_map(|v| v.fields.iter().flatten()) {
                            assert!(probed(&f.ty), "field type not probed: {:?}", f);
                            go(&f.ty, cat, seen)
                        }
                    }
                    Item::Conv(c) => {
                        assert!(probed(&c.via), "conversion intermediate not probed");
                        go(&c.via, cat, seen)
                    }
                }
            }
        }
    }
    go(t, cat, &mut vec![]);
}

/// Declared-type classes for which `default` / `skip` / `map` are emitted.
#[derive(Clone, Copy, Debug, PartialEq, Eq)]
pub enum DeclClass {
    /// `P<u8>`
    PU8,
    /// `Option<P<u8>>`
    OptPU8,
    /// `Cv` (result of a field conversion)
    Cv,
    /// `P<Vec<P<u8>>>`
    PVecPU8,
    Other,
}

pub fn decl_class(f: &FieldSpec) -> DeclClass {
    if f.conv != Conv::None {
        return DeclClass::Cv;
    }
    if f.ty == pu8() {
        DeclClass::PU8
    } else if f.ty == opt(pu8()) {
        DeclClass::OptPU8
    } else if f.ty == p(vec_of(pu8())) {
        DeclClass::PVecPU8
    } else {
        DeclClass::Other
    }
}
