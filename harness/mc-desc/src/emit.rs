//! Specification → Rust source.

use crate::*;
use std::fmt::Write;

pub fn ty_str(t: &Ty, cat: &Catalogue) -> String {
    match t {
        Ty::Sc(s) => s.rust().to_string(),
        Ty::Json => "::serde_json::Value".to_string(),
        Ty::Phantom => "::std::marker::PhantomData<u8>".to_string(),
        Ty::P(t) => format!("P<{}>", ty_str(t, cat)),
        Ty::Opt(t) => format!("Option<{}>", ty_str(t, cat)),
        Ty::Bx(t) => format!("Box<{}>", ty_str(t, cat)),
        Ty::Vec(t) => format!("Vec<{}>", ty_str(t, cat)),
        Ty::HSet(t) => format!("HashSet<{}>", ty_str(t, cat)),
        Ty::BSet(t) => format!("BTreeSet<{}>", ty_str(t, cat)),
        Ty::Arr(t, n) => format!("[{}; {}]", ty_str(t, cat), n),
        Ty::Tup(ts) => format!("({},)", ts.iter().map(|t| ty_str(t, cat)).collect::<Vec<_>>().join(", ")),
        Ty::Map { hashed, key, val } => format!(
            "{}<{}, {}>",
            if *hashed { "HashMap" } else { "BTreeMap" },
            key.rust(),
            ty_str(val, cat)
        ),
        Ty::Cs(k) => format!("CS<{}>", k.rust()),
        Ty::Item(i) => match &cat.items[*i] {
            Item::Struct(s) if s.generic => {
                let t0 = ty_str(&s.fields[0].ty, cat);
                match s.generic_kind {
                    0 => format!("{}<{t0}>", cat.item_name(*i)),
                    1 => {
                        let Ty::P(inner) = &s.fields.last().unwrap().ty else { panic!("const-generic field must be P<[_; N]>") };
                        let Ty::Arr(_, n) = &**inner else { panic!("const-generic field must be P<[_; N]>") };
                        format!("{}<{t0}, {n}>", cat.item_name(*i))
                    }
                    _ => {
                        let Ty::P(inner) = &s.fields[1].ty else { panic!("second field must be P<Vec<U>>") };
                        let Ty::Vec(u) = &**inner else { panic!("second field must be P<Vec<U>>") };
                        format!("{}<{t0}, {}>", cat.item_name(*i), ty_str(u, cat))
                    }
                }
            }
            Item::Enum(e) if e.generic => {
                format!("{}<{}>", cat.item_name(*i), ty_str(&e.variants[1].fields.as_ref().unwrap()[0].ty, cat))
            }
            _ => cat.item_name(*i),
        },
    }
}

/// Writes attribute arguments in one of four equivalent ways (see `StructSpec::style`).
fn render_attrs(mut args: Vec<String>, style: u8, indent: &str) -> String {
    if args.is_empty() {
        return String::new();
    }
    if style == 1 || style == 3 {
        args.reverse();
    }
    if style >= 2 {
        args.iter().map(|a| format!("{indent}#[deserr({a})]\n")).collect()
    } else {
        format!("{indent}#[deserr({})]\n", args.join(", "))
    }
}

/// A string literal for `rename`, written in one of several equivalent ways.
fn rename_lit(r: &str, style: u8) -> String {
    match style {
        // the first character as a unicode escape
        2 => {
            let mut cs = r.chars();
            match cs.next() {
                Some(c) => format!("\"\\u{{{:x}}}{}\"", c as u32, cs.as_str().escape_default()),
                None => "\"\"".to_string(),
            }
        }
        // the last ASCII character as a hex escape (raw strings are left to C16's valid programs: a
        // derive that refuses one would stop the whole catalogue from compiling)
        3 if r.chars().last().map(|c| c.is_ascii_alphanumeric() || c == '_').unwrap_or(false) => {
            let last = r.chars().last().unwrap();
            let head = &r[..r.len() - 1];
            format!("\"{}\\x{:02x}\"", head.escape_default(), last as u32)
        }
        _ => format!("{r:?}"),
    }
}

/// A user function written by name (imported) or by its full path.
fn fn_path(name: &str, style: u8) -> String {
    if style >= 2 {
        format!("mc_core::prelude::{name}")
    } else {
        name.to_string()
    }
}

fn rename_all_str(r: RenameAll) -> &'static str {
    match r {
        RenameAll::Camel => "camelCase",
        RenameAll::Lower => "lowercase",
    }
}

pub fn default_expr(f: &FieldSpec) -> &'static str {
    match decl_class(f) {
        DeclClass::PU8 => "P(7)",
        DeclClass::OptPU8 => "Some(P(7))",
        DeclClass::Cv => "Cv(7)",
        DeclClass::PVecPU8 => "P(vec![P(7)])",
        DeclClass::Other => panic!("default = expr on unsupported field type {f:?}"),
    }
}

fn field_attrs(f: &FieldSpec, concrete: bool, cat: &Catalogue, style: u8, type_param: bool) -> String {
    let mut a: Vec<String> = vec![];
    if type_param {
        a.push("needs_predicate".into());
    }
    if let Some(r) = &f.rename {
        a.push(format!("rename = {}", rename_lit(r, style)));
    }
    match f.default {
        DefaultSpec::None => {}
        DefaultSpec::Trait => a.push("default".into()),
        // plain, parenthesised, or as a block
        DefaultSpec::Expr => a.push(match style {
            1 => format!("default = ({})", default_expr(f)),
            3 => format!("default = {{ {} }}", default_expr(f)),
            _ => format!("default = {}", default_expr(f)),
        }),
    }
    if f.skip {
        a.push("skip".into());
    }
    let via = ty_str(&f.ty, cat);
    // `_o`: the same functions wrapped in `Some` (declared type `Option<Cv>`)
    let o = if f.conv_opt_decl {
        "_o"
    } else if f.conv_same_decl {
        // the same functions returning the intermediate type itself
        "_s"
    } else {
        ""
    };
    match f.conv {
        Conv::None => {}
        Conv::From { by_ref: false } => a.push(format!("from({via}) = {}", fn_path(&format!("from_inc{o}"), style))),
        Conv::From { by_ref: true } => a.push(format!("from(&{via}) = {}", fn_path(&format!("from_ref{o}"), style))),
        Conv::TryFrom { by_ref: false } => a.push(format!("try_from({via}) = {} -> ConvErr", fn_path(&format!("try_even{o}"), style))),
        Conv::TryFrom { by_ref: true } => a.push(format!("try_from(&{via}) = {} -> mc_core::prelude::ConvErr", fn_path(&format!("try_ref{o}"), style))),
    }
    if f.map {
        a.push(format!("map = {}", fn_path("map_bump", style)));
    }
    if f.missing_fn {
        a.push(format!(
            "missing_field_error = {}",
            if f.missing_foreign {
                "custom_missing_f"
            } else if concrete {
                "custom_missing_a"
            } else {
                "custom_missing"
            }
        ));
    }
    if f.err_b {
        a.push("error = RecB".into());
    }
    let deserr = render_attrs(a, style, "    ");
    match &f.serde_rename {
        None => deserr,
        // the helper attribute goes before or after the deserr ones, depending on the style
        Some(r) if style % 2 == 0 => format!("    #[serde(rename = {r:?})]\n{deserr}"),
        Some(r) => format!("{deserr}    #[serde(rename = {r:?})]\n"),
    }
}

fn decl_ty(f: &FieldSpec, cat: &Catalogue) -> String {
    if f.conv != Conv::None && f.conv_same_decl {
        assert!(f.ty == pu8() && !f.has_default() && !f.skip && !f.map, "same-type conversions are declared on plain P<u8> fields");
        ty_str(&f.ty, cat)
    } else if f.conv != Conv::None && f.conv_opt_decl {
        assert!(!f.has_default() && !f.skip && !f.map, "Option<Cv> fields take no default / skip / map");
        "Option<Cv>".to_string()
    } else if f.conv != Conv::None {
        "Cv".to_string()
    } else {
        ty_str(&f.ty, cat)
    }
}

fn container_attrs(
    rename_all: Option<RenameAll>,
    deny: Deny,
    validate: bool,
    concrete: bool,
    tag: Option<&str>,
    fields: &[&FieldSpec],
    same_err: bool,
) -> Vec<String> {
    let mut a = vec![];
    if let Some(t) = tag {
        a.push(format!("tag = {:?}", t));
    }
    if let Some(r) = rename_all {
        a.push(format!("rename_all = {}", rename_all_str(r)));
    }
    match deny {
        Deny::No => {}
        Deny::Default => a.push("deny_unknown_fields".into()),
        Deny::Custom => a.push(format!(
            "deny_unknown_fields = {}",
            if concrete { "custom_unknown_a" } else { "custom_unknown" }
        )),
        Deny::CustomForeign => a.push("deny_unknown_fields = custom_unknown_f".into()),
    }
    if !concrete && (deny == Deny::CustomForeign || fields.iter().any(|f| f.missing_foreign)) {
        // the foreign error of the custom functions must be mergeable into the error type
        a.push("where_predicate = __Deserr_E: ::deserr::MergeWithError<ConvErr>".into());
    }
    if validate {
        a.push(validate_attr(concrete, same_err));
    }
    if concrete {
        a.push("error = RecA".into());
    }
    a
}

fn validate_attr(concrete: bool, same_err: bool) -> String {
    match (same_err, concrete) {
        (false, _) => "validate = validate_sum -> ValErr".into(),
        (true, false) => "validate = validate_sum_same -> __Deserr_E".into(),
        (true, true) => "validate = validate_sum_same -> RecA".into(),
    }
}

/// `generic`: None, or the generic shape (see `StructSpec::generic_kind`).
fn emit_fields(out: &mut String, fields: &[FieldSpec], concrete: bool, cat: &Catalogue, vis: &str, style: u8, generic: Option<u8>) {
    for (n, f) in fields.iter().enumerate() {
        let decl: Option<&str> = match generic {
            Some(_) if n == 0 => Some("T"),
            Some(1) if n + 1 == fields.len() => Some("P<[P<u8>; N]>"),
            Some(2) if n == 1 => Some("P<Vec<U>>"),
            _ => None,
        };
        // a declared type that mentions a type parameter needs the predicate; the const-generic
        // array does not
        let needs_predicate = matches!(decl, Some("T") | Some("P<Vec<U>>"));
        out.push_str(&field_attrs(f, concrete, cat, style, needs_predicate));
        let _ = writeln!(out, "    {vis}{}: {},", f.ident, decl.map(|d| d.to_string()).unwrap_or_else(|| decl_ty(f, cat)));
    }
}

pub fn emit_item(out: &mut String, i: usize, cat: &Catalogue) {
    let name = cat.item_name(i);
    match &cat.items[i] {
        Item::Struct(s) => {
            let all: Vec<&FieldSpec> = s.fields.iter().collect();
            let mut attrs = container_attrs(s.rename_all, s.deny, s.validate, s.concrete, None, &all, s.same_err);
            if s.generic && s.validate {
                // the validate function dumps the value: the parameters must be dumpable
                attrs.push("where_predicate = T: Dump".into());
                if s.generic_kind == 2 {
                    attrs.push("where_predicate = U: Dump".into());
                }
            }
            let _ = writeln!(out, "#[derive(Debug, Deserr)]");
            out.push_str(&render_attrs(attrs, s.style, ""));
            let (decl_generics, impl_generics, use_generics, where_clause) = match (s.generic, s.generic_kind) {
                (false, _) => ("", "", "", ""),
                (true, 0) => ("<T>", "<T: Dump>", "<T>", ""),
                (true, 1) => ("<T, const N: usize>", "<T: Dump, const N: usize>", "<T, N>", ""),
                (true, _) => ("<T, U>", "<T: Dump, U: Dump>", "<T, U>", " where T: ::std::fmt::Debug"),
            };
            if s.generic {
                assert!(s.fields[0].conv == Conv::None && !s.fields[0].has_default() && !s.fields[0].skip && !s.fields[0].map);
            }
            let _ = writeln!(out, "pub struct {name}{decl_generics}{where_clause} {{");
            emit_fields(out, &s.fields, s.concrete, cat, "pub ", s.style, if s.generic { Some(s.generic_kind) } else { None });
            let _ = writeln!(out, "}}");
            if s.generic {
                let _ = writeln!(out, "impl{impl_generics} Dump for {name}{use_generics}{where_clause} {{\n    fn dump(&self) -> Doc {{\n        Doc::Obj(vec![");
            } else {
                let _ = writeln!(out, "impl Dump for {name} {{\n    fn dump(&self) -> Doc {{\n        Doc::Obj(vec![");
            }
            for f in &s.fields {
                let _ = writeln!(out, "            ({:?}.to_string(), self.{}.dump()),", f.ident, f.ident);
            }
            let _ = writeln!(out, "        ])\n    }}\n}}");
        }
        Item::Enum(e) => {
            let all: Vec<&FieldSpec> = e.variants.iter().flat_map(|v| v.fields.iter().flatten()).collect();
            let attrs = container_attrs(e.rename_all, e.deny, e.validate, e.concrete, e.tag.as_deref(), &all, e.same_err);
            let unit_only = e.variants.iter().all(|v| v.fields.is_none());
            if unit_only {
                let _ = writeln!(out, "#[derive(Debug, Deserr, PartialEq, Eq, Hash, PartialOrd, Ord)]");
            } else {
                let _ = writeln!(out, "#[derive(Debug, Deserr)]");
            }
            out.push_str(&render_attrs(attrs, e.style, ""));
            let _ = writeln!(out, "pub enum {name}{} {{", if e.generic { "<T>" } else { "" });
            for v in &e.variants {
                let mut a = vec![];
                if let Some(r) = &v.rename {
                    a.push(format!("rename = {}", rename_lit(r, e.style)));
                }
                if let Some(r) = v.rename_all {
                    a.push(format!("rename_all = {}", rename_all_str(r)));
                }
                out.push_str(&render_attrs(a, e.style, "    "));
                match &v.fields {
                    None => {
                        let _ = writeln!(out, "    {},", v.ident);
                    }
                    Some(fs) => {
                        let _ = writeln!(out, "    {} {{", v.ident);
                        let mut inner = String::new();
                        let is_generic_variant = e.generic && std::ptr::eq(v, &e.variants[1]);
                        emit_fields(&mut inner, fs, e.concrete, cat, "", e.style, if is_generic_variant { Some(0) } else { None });
                        for l in inner.lines() {
                            let _ = writeln!(out, "    {l}");
                        }
                        let _ = writeln!(out, "    }},");
                    }
                }
            }
            let _ = writeln!(out, "}}");
            if e.generic {
                let _ = writeln!(out, "impl<T: Dump> Dump for {name}<T> {{\n    fn dump(&self) -> Doc {{\n        match self {{");
            } else {
                let _ = writeln!(out, "impl Dump for {name} {{\n    fn dump(&self) -> Doc {{\n        match self {{");
            }
            for v in &e.variants {
                match &v.fields {
                    None => {
                        let _ = writeln!(
                            out,
                            "            {name}::{} => Doc::Obj(vec![(\"$variant\".to_string(), Doc::Str({:?}.to_string()))]),",
                            v.ident, v.ident
                        );
                    }
                    Some(fs) => {
                        let binds = fs.iter().map(|f| f.ident.clone()).collect::<Vec<_>>().join(", ");
                        let _ = writeln!(out, "            {name}::{} {{ {binds} }} => Doc::Obj(vec![", v.ident);
                        let _ = writeln!(
                            out,
                            "                (\"$variant\".to_string(), Doc::Str({:?}.to_string())),",
                            v.ident
                        );
                        for f in fs {
                            let _ = writeln!(out, "                ({:?}.to_string(), {}.dump()),", f.ident, f.ident);
                        }
                        let _ = writeln!(out, "            ]),");
                    }
                }
            }
            let _ = writeln!(out, "        }}\n    }}\n}}");
        }
        Item::Conv(c) => {
            let via = ty_str(&c.via, cat);
            let amp = if c.by_ref { "&" } else { "" };
            let fname = format!("c{i}_fn");
            let mut attrs = vec![];
            let same_ty = if c.concrete { "RecA" } else { "__Deserr_E" };
            if c.fallible {
                if c.same_err {
                    attrs.push(format!("try_from({amp}{via}) = {fname} -> {same_ty}"));
                } else {
                    attrs.push(format!("try_from({amp}{via}) = {fname} -> ConvErr"));
                }
            } else {
                attrs.push(format!("from({amp}{via}) = {fname}"));
            }
            if c.validate {
                attrs.push(validate_attr(c.concrete, c.same_err));
            }
            if c.concrete {
                attrs.push("error = RecA".into());
            }
            let _ = writeln!(out, "#[derive(Debug, Deserr)]");
            let _ = writeln!(out, "#[deserr({})]", attrs.join(", "));
            let _ = writeln!(out, "pub struct {name} {{\n    pub d: Doc,\n}}");
            if c.fallible && c.same_err {
                let _ = writeln!(
                    out,
                    "fn {fname}<E: ::deserr::DeserializeError>(x: {amp}{via}) -> ::std::result::Result<{name}, E> {{\n    conv_container_try_same::<E>({i}, {}, &x.dump()).map(|d| {name} {{ d }})\n}}",
                    c.by_ref
                );
            } else if c.fallible {
                let _ = writeln!(
                    out,
                    "fn {fname}(x: {amp}{via}) -> ::std::result::Result<{name}, ConvErr> {{\n    conv_container_try({i}, {}, &x.dump()).map(|d| {name} {{ d }})\n}}",
                    c.by_ref
                );
            } else {
                let _ = writeln!(
                    out,
                    "fn {fname}(x: {amp}{via}) -> {name} {{\n    {name} {{ d: conv_container({i}, {}, &x.dump()) }}\n}}",
                    c.by_ref
                );
            }
            let _ = writeln!(
                out,
                "impl Dump for {name} {{\n    fn dump(&self) -> Doc {{\n        Doc::Obj(vec![(\"$conv\".to_string(), self.d.clone())])\n    }}\n}}"
            );
        }
    }
    out.push('\n');
}

/// Items reachable from a type (transitively), in index order.
pub fn reachable_items(cat: &Catalogue, roots: &[usize]) -> Vec<usize> {
    fn go(cat: &Catalogue, t: &Ty, seen: &mut std::collections::BTreeSet<usize>) {
        match t {
            Ty::Sc(_) | Ty::Json | Ty::Phantom | Ty::Cs(_) => {}
            Ty::P(t) | Ty::Opt(t) | Ty::Bx(t) | Ty::Vec(t) | Ty::HSet(t) | Ty::BSet(t) | Ty::Arr(t, _) => go(cat, t, seen),
            Ty::Tup(ts) => ts.iter().for_each(|t| go(cat, t, seen)),
            Ty::Map { val, .. } => go(cat, val, seen),
            Ty::Item(i) => {
                if !seen.insert(*i) {
                    return;
                }
                match &cat.items[*i] {
                    Item::Struct(s) => s.fields.iter().for_each(|f| go(cat, &f.ty, seen)),
                    Item::Enum(e) => e.variants.iter().flat_map(|v| v.fields.iter().flatten()).for_each(|f| go(cat, &f.ty, seen)),
                    Item::Conv(c) => go(cat, &c.via, seen),
                }
            }
        }
    }
    let mut seen = std::collections::BTreeSet::new();
    for r in roots {
        go(cat, &cat.roots[*r].ty, &mut seen);
    }
    seen.into_iter().collect()
}

/// Emits the whole catalogue crate body.
pub fn emit_catalogue(cat: &Catalogue) -> String {
    let all: Vec<usize> = (0..cat.roots.len()).collect();
    emit_roots(cat, &all)
}

/// The names of the 4096-variant unit enum: `v` + three letters over a..p (after `lowercase`).
pub fn wide_names() -> Vec<String> {
    let l = b"abcdefghijklmnop";
    let mut v = vec![];
    for a in l {
        for b in l {
            for c in l {
                v.push(format!("v{}{}{}", *a as char, *b as char, *c as char));
            }
        }
    }
    v
}

/// A unit-only enum with 4096 variants and a probe that says which variant (if any) a string
/// selects, with an error type that records nothing (C10, names as a language).
pub fn emit_wide_names() -> String {
    let mut out = String::new();
    out.push_str("\n#[derive(Debug, Deserr, Clone, Copy, PartialEq, Eq)]\n#[deserr(rename_all = lowercase)]\npub enum WideNames {\n");
    for n in wide_names() {
        let mut cs = n.chars();
        let first = cs.next().unwrap().to_ascii_uppercase();
        let _ = writeln!(out, "    {first}{},", cs.as_str());
    }
    out.push_str("}\n\n/// index of the selected variant, or None if the string is refused\npub fn wide_names_probe(s: &str) -> Option<usize> {\n    deserr::deserialize::<WideNames, ::serde_json::Value, Cheap>(::serde_json::Value::String(s.to_string())).ok().map(|v| v as usize)\n}\n");
    out
}

/// Emits shard `k` of `n`: roots with index ≡ k (mod n) and the items they reach.
pub fn emit_catalogue_shard(cat: &Catalogue, k: usize, n: usize) -> String {
    let roots: Vec<usize> = (0..cat.roots.len()).filter(|i| i % n == k).collect();
    emit_roots(cat, &roots)
}

fn emit_roots(cat: &Catalogue, roots: &[usize]) -> String {
    let mut out = String::new();
    out.push_str(
        "// @generated by mc-desc::emit — do not edit\n\
         use deserr::Deserr;\n\
         use mc_core::prelude::*;\n\
         use std::collections::{BTreeMap, BTreeSet, HashMap, HashSet};\n\n",
    );
    for i in reachable_items(cat, roots) {
        emit_item(&mut out, i, cat);
    }
    for &k in roots {
        let _ = writeln!(out, "pub type T{k} = {};", ty_str(&cat.roots[k].ty, cat));
    }
    out.push_str("\npub fn entries() -> Vec<Entry> {\n    vec![\n");
    for &k in roots {
        if cat.ty_generic(&cat.roots[k].ty) {
            let _ = writeln!(out, "        entry_all::<T{k}>({k}),");
        } else {
            let _ = writeln!(out, "        entry_rec::<T{k}>({k}),");
        }
    }
    out.push_str("    ]\n}\n");
    out
}
