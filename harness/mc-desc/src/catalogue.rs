//! Bounded-exhaustive enumeration of the catalogue (DESIGN.md §3.6).

use crate::*;

#[derive(Clone, Copy, Debug, PartialEq, Eq)]
pub enum Tier {
    Quick,
    Thorough,
}

fn st(fields: Vec<FieldSpec>) -> StructSpec {
    StructSpec::plain(fields)
}

/// The plain 3-field struct around which group A takes its attribute ball.
/// Identifier shapes are chosen so that camelCase and lowercase both matter.
fn base3() -> StructSpec {
    st(vec![
        FieldSpec::plain("fa_x", pu8()),
        FieldSpec::plain("fbCap", pu8()),
        FieldSpec::plain("fc", pu8()),
    ])
}

/// One single-knob deviation from a struct specification.
#[derive(Clone, Copy, Debug, PartialEq, Eq)]
enum Knob {
    RenameAll(RenameAll),
    Deny(Deny),
    Validate,
    /// `validate` with a function that returns the container's own error type
    ValidateSame,
    Rename(usize),
    DefaultTrait(usize),
    DefaultExpr(usize),
    Skip(usize),
    Map(usize),
    Conv(usize, Conv),
    MissingFn(usize),
    ErrB(usize),
    Optional(usize),
    /// `missing_field_error` function returning a foreign error
    MissingForeign(usize),
    /// a `#[serde(rename = ..)]` helper attribute on the field (no effect on keys)
    SerdeRename(usize),
    /// the field is a `PhantomData` marker (a field like any other: it has a key)
    Phantom(usize),
}

/// Knobs added after the third round (see DESIGN.md §0.5): in the thorough tier they take part in
/// all pairs with the older knobs, but not in pairs among themselves or in the structured triples.
fn is_late(k: &Knob) -> bool {
    matches!(k, Knob::MissingForeign(_) | Knob::SerdeRename(_) | Knob::Phantom(_) | Knob::ValidateSame | Knob::Deny(Deny::CustomForeign))
}

fn knobs(nfields: usize) -> Vec<Knob> {
    let mut k = vec![
        Knob::RenameAll(RenameAll::Camel),
        Knob::RenameAll(RenameAll::Lower),
        Knob::Deny(Deny::Default),
        Knob::Deny(Deny::Custom),
        Knob::Deny(Deny::CustomForeign),
        Knob::Validate,
        Knob::ValidateSame,
    ];
    for i in 0..nfields {
        k.extend([
            Knob::Rename(i),
            Knob::DefaultTrait(i),
            Knob::DefaultExpr(i),
            Knob::Skip(i),
            Knob::Map(i),
            Knob::Conv(i, Conv::From { by_ref: false }),
            Knob::Conv(i, Conv::From { by_ref: true }),
            Knob::Conv(i, Conv::TryFrom { by_ref: false }),
            Knob::Conv(i, Conv::TryFrom { by_ref: true }),
            Knob::MissingFn(i),
            Knob::ErrB(i),
            Knob::Optional(i),
            Knob::SerdeRename(i),
        ]);
        if i < 2 {
            k.extend([Knob::MissingForeign(i), Knob::Phantom(i)]);
        }
    }
    k
}

/// Applies a knob; `None` when the combination is not a program of the grammar
/// (mutually exclusive attributes — those belong to C16 — or a conversion on an
/// `Option` field, for which the function library has no function).
fn apply(mut s: StructSpec, k: Knob) -> Option<StructSpec> {
    match k {
        Knob::RenameAll(r) => {
            if s.rename_all.is_some() {
                return None;
            }
            s.rename_all = Some(r)
        }
        Knob::Deny(d) => {
            if s.deny != Deny::No {
                return None;
            }
            s.deny = d
        }
        Knob::Validate => {
            if s.validate {
                return None;
            }
            s.validate = true
        }
        Knob::ValidateSame => {
            if s.validate {
                return None;
            }
            s.validate = true;
            s.same_err = true
        }
        Knob::Rename(i) => {
            if s.fields[i].rename.is_some() {
                return None;
            }
            s.fields[i].rename = Some(format!("ren_{}", ["a", "b", "c", "d"][i]))
        }
        Knob::DefaultTrait(i) | Knob::DefaultExpr(i) => {
            if s.fields[i].default != DefaultSpec::None
                || (s.fields[i].ty == Ty::Phantom && matches!(k, Knob::DefaultExpr(_)))
            {
                return None;
            }
            s.fields[i].default =
                if matches!(k, Knob::DefaultTrait(_)) { DefaultSpec::Trait } else { DefaultSpec::Expr }
        }
        Knob::Skip(i) => {
            if s.fields[i].skip {
                return None;
            }
            s.fields[i].skip = true
        }
        Knob::Map(i) => {
            if s.fields[i].map || s.fields[i].ty == Ty::Phantom {
                return None;
            }
            s.fields[i].map = true
        }
        Knob::Conv(i, c) => {
            // the intermediate type is `P<u8>` or, after `Optional`, `Option<P<u8>>`
            if s.fields[i].conv != Conv::None || !(s.fields[i].ty == pu8() || s.fields[i].ty == opt(pu8())) {
                return None;
            }
            s.fields[i].conv = c
        }
        Knob::MissingFn(i) => {
            if s.fields[i].missing_fn {
                return None;
            }
            s.fields[i].missing_fn = true
        }
        Knob::ErrB(i) => {
            if s.fields[i].err_b {
                return None;
            }
            s.fields[i].err_b = true
        }
        Knob::Optional(i) => {
            if s.fields[i].ty != pu8() {
                return None;
            }
            s.fields[i].ty = opt(pu8())
        }
        Knob::MissingForeign(i) => {
            if s.fields[i].missing_fn {
                return None;
            }
            s.fields[i].missing_fn = true;
            s.fields[i].missing_foreign = true
        }
        Knob::SerdeRename(i) => {
            if s.fields[i].serde_rename.is_some() {
                return None;
            }
            // the name serde would use collides with nothing, or — for the middle field — with
            // the key of the first field, which must keep its owner
            s.fields[i].serde_rename = Some(if i == 1 { "fa_x".to_string() } else { format!("serde_{i}") })
        }
        Knob::Phantom(i) => {
            let f = &s.fields[i];
            if f.ty != pu8() || f.conv != Conv::None || f.map || f.default == DefaultSpec::Expr {
                return None;
            }
            // written without the probe wrapper: the declared type is literally `PhantomData<..>`
            s.fields[i].ty = Ty::Phantom
        }
    }
    Some(s)
}

fn group_a(cat: &mut Catalogue, tier: Tier) {
    let base = base3();
    let i = cat.add(Item::Struct(base.clone()));
    cat.root(p(Ty::Item(i)), "A", "plain 3-field struct");
    let ks = knobs(3);
    for (n, &k) in ks.iter().enumerate() {
        let Some(s1) = apply(base.clone(), k) else { continue };
        let i = cat.add(Item::Struct(s1.clone()));
        cat.root(p(Ty::Item(i)), "A", format!("{k:?}"));
        if tier == Tier::Thorough {
            for &k2 in &ks[n + 1..] {
                // the knobs added in rounds 4–6 are paired with every older knob, not with each other
                if is_late(&k) && is_late(&k2) {
                    continue;
                }
                let Some(mut s2) = apply(s1.clone(), k2) else { continue };
                s2.style = ((n + 3 * cat.roots.len()) % 4) as u8;
                let i = cat.add(Item::Struct(s2));
                cat.root(p(Ty::Item(i)), "A", format!("{k:?}+{k2:?}"));
            }
        }
    }
    if tier == Tier::Thorough {
        // structured triples: two knobs on one field + one container knob, and two container
        // knobs + one field knob (three attributes interacting on the same datum)
        let container: Vec<Knob> = ks.iter().copied().filter(|k| matches!(k, Knob::RenameAll(_) | Knob::Deny(_) | Knob::Validate | Knob::ValidateSame)).collect();
        let field_of = |k: &Knob| -> Option<usize> {
            match k {
                Knob::Rename(i) | Knob::DefaultTrait(i) | Knob::DefaultExpr(i) | Knob::Skip(i) | Knob::Map(i) | Knob::MissingFn(i) | Knob::ErrB(i) | Knob::Optional(i) => Some(*i),
                Knob::MissingForeign(i) | Knob::SerdeRename(i) | Knob::Phantom(i) => Some(*i),
                Knob::Conv(i, _) => Some(*i),
                _ => None,
            }
        };
        let mut n = 0usize;
        for (a, &k1) in ks.iter().enumerate() {
            let Some(f1) = field_of(&k1) else { continue };
            for &k2 in &ks[a + 1..] {
                if field_of(&k2) != Some(f1) {
                    continue;
                }
                for &k3 in &container {
                    if is_late(&k1) || is_late(&k2) || is_late(&k3) {
                        continue;
                    }
                    let Some(s3) = apply(base.clone(), k1).and_then(|s| apply(s, k2)).and_then(|s| apply(s, k3)) else { continue };
                    let mut s3 = s3;
                    n += 1;
                    s3.style = (n % 4) as u8;
                    let i = cat.add(Item::Struct(s3));
                    cat.root(p(Ty::Item(i)), "A", format!("{k1:?}+{k2:?}+{k3:?}"));
                }
            }
        }
        for (a, &c1) in container.iter().enumerate() {
            for &c2 in &container[a + 1..] {
                for &k in &ks {
                    if field_of(&k).is_none() || is_late(&k) || is_late(&c1) || is_late(&c2) {
                        continue;
                    }
                    let Some(s3) = apply(base.clone(), c1).and_then(|s| apply(s, c2)).and_then(|s| apply(s, k)) else { continue };
                    let mut s3 = s3;
                    n += 1;
                    s3.style = (n % 4) as u8;
                    let i = cat.add(Item::Struct(s3));
                    cat.root(p(Ty::Item(i)), "A", format!("{c1:?}+{c2:?}+{k:?}"));
                }
            }
        }
    }
    if tier == Tier::Quick {
        // a few hand-picked pairs that interact (the thorough tier has all pairs)
        let pairs: &[(Knob, Knob)] = &[
            (Knob::Skip(0), Knob::Deny(Deny::Default)),
            (Knob::Skip(0), Knob::RenameAll(RenameAll::Camel)),
            (Knob::Rename(0), Knob::RenameAll(RenameAll::Camel)),
            (Knob::Rename(1), Knob::RenameAll(RenameAll::Lower)),
            (Knob::DefaultExpr(1), Knob::Map(1)),
            (Knob::DefaultTrait(1), Knob::Conv(1, Conv::TryFrom { by_ref: false })),
            (Knob::Conv(0, Conv::TryFrom { by_ref: false }), Knob::ErrB(0)),
            (Knob::Conv(0, Conv::TryFrom { by_ref: true }), Knob::Map(0)),
            (Knob::Conv(1, Conv::TryFrom { by_ref: false }), Knob::Validate),
            (Knob::Conv(1, Conv::From { by_ref: false }), Knob::Map(1)),
            (Knob::MissingFn(0), Knob::Deny(Deny::Custom)),
            (Knob::MissingFn(2), Knob::Conv(0, Conv::TryFrom { by_ref: false })),
            (Knob::Validate, Knob::Deny(Deny::Custom)),
            (Knob::Validate, Knob::Map(2)),
            (Knob::ErrB(1), Knob::Validate),
            (Knob::Optional(1), Knob::Map(1)),
            (Knob::Optional(0), Knob::MissingFn(0)),
            (Knob::Skip(1), Knob::DefaultExpr(1)),
            // the custom function must get the key *after* rename_all
            (Knob::MissingFn(0), Knob::RenameAll(RenameAll::Camel)),
            (Knob::MissingFn(1), Knob::RenameAll(RenameAll::Lower)),
            (Knob::MissingFn(1), Knob::Rename(1)),
            (Knob::Deny(Deny::Custom), Knob::RenameAll(RenameAll::Camel)),
            // map on a skipped / defaulted field must still wait for the container to succeed
            (Knob::Skip(0), Knob::Map(0)),
            (Knob::Skip(2), Knob::Map(2)),
            (Knob::DefaultTrait(0), Knob::Map(0)),
            // foreign errors from the custom functions: the derive must obey the answer of that merge
            (Knob::MissingForeign(0), Knob::Deny(Deny::CustomForeign)),
            (Knob::MissingForeign(1), Knob::Conv(0, Conv::TryFrom { by_ref: false })),
            (Knob::MissingForeign(0), Knob::MissingFn(1)),
            (Knob::Deny(Deny::CustomForeign), Knob::RenameAll(RenameAll::Camel)),
            (Knob::Deny(Deny::CustomForeign), Knob::Validate),
            // a default next to a custom missing-field function: the default wins, the function is never called
            (Knob::DefaultExpr(1), Knob::MissingFn(1)),
            (Knob::DefaultTrait(0), Knob::MissingFn(0)),
            (Knob::DefaultTrait(2), Knob::MissingForeign(1)),
            // conversions whose intermediate type is an Option
            (Knob::Optional(1), Knob::Conv(1, Conv::From { by_ref: false })),
            (Knob::Optional(0), Knob::Conv(0, Conv::TryFrom { by_ref: true })),
            // a validate function whose error type is the container's own: still handed over
            (Knob::ValidateSame, Knob::Deny(Deny::Default)),
            (Knob::ValidateSame, Knob::Conv(1, Conv::TryFrom { by_ref: false })),
            (Knob::ValidateSame, Knob::MissingFn(0)),
            (Knob::ValidateSame, Knob::ErrB(1)),
            // helper attributes of other derives next to deserr's own
            (Knob::SerdeRename(1), Knob::Deny(Deny::Default)),
            (Knob::SerdeRename(0), Knob::Rename(0)),
            (Knob::SerdeRename(2), Knob::RenameAll(RenameAll::Camel)),
            // markers are fields: they have a key, it is accepted and required
            (Knob::Phantom(0), Knob::Deny(Deny::Default)),
            (Knob::Phantom(1), Knob::Deny(Deny::Custom)),
            (Knob::Phantom(1), Knob::Rename(1)),
            (Knob::Phantom(0), Knob::DefaultTrait(0)),
            (Knob::Phantom(1), Knob::Skip(1)),
        ];
        for (n, &(k1, k2)) in pairs.iter().enumerate() {
            let mut s = apply(apply(base.clone(), k1).unwrap(), k2).unwrap();
            // the way the arguments are written rotates over the pairs
            s.style = (n % 4) as u8;
            let i = cat.add(Item::Struct(s));
            cat.root(p(Ty::Item(i)), "A", format!("{k1:?}+{k2:?} (attribute style {})", n % 4));
        }
        // one attribute-rich struct in all four styles
        for style in 0..4u8 {
            let mut s = base.clone();
            s.style = style;
            s.rename_all = Some(RenameAll::Camel);
            s.deny = Deny::Default;
            s.validate = true;
            s.fields[0].rename = Some("ren_a".into());
            s.fields[0].default = DefaultSpec::Expr;
            s.fields[0].map = true;
            s.fields[1].conv = Conv::TryFrom { by_ref: false };
            s.fields[1].missing_fn = true;
            s.fields[2].skip = true;
            s.fields[2].default = DefaultSpec::Expr;
            let i = cat.add(Item::Struct(s));
            cat.root(p(Ty::Item(i)), "A", format!("attribute-rich struct, style {style}"));
        }
    }
}

fn group_b(cat: &mut Catalogue, tier: Tier) {
    // B1: skip position × deny × rename_all × one rename
    for mask in 0u8..8 {
        for deny in [Deny::No, Deny::Default] {
            for ra in [None, Some(RenameAll::Camel)] {
                for ren in [false, true] {
                    if tier == Tier::Quick && ren && ra.is_none() && deny == Deny::No {
                        continue;
                    }
                    let mut s = base3();
                    for i in 0..3 {
                        s.fields[i].skip = mask & (1 << i) != 0;
                    }
                    s.deny = deny;
                    s.rename_all = ra;
                    if ren {
                        s.fields[1].rename = Some("ren_b".into());
                    }
                    let i = cat.add(Item::Struct(s));
                    cat.root(p(Ty::Item(i)), "B1", format!("skip mask {mask:03b} {deny:?} {ra:?} ren={ren}"));
                }
            }
        }
    }
    // B2: default kind × conversion × map × Option on the middle field
    for d in [DefaultSpec::None, DefaultSpec::Trait, DefaultSpec::Expr] {
        for conv in [Conv::None, Conv::From { by_ref: false }, Conv::TryFrom { by_ref: false }] {
            for map in [false, true] {
                for optional in [false, true] {
                    let mut s = base3();
                    s.fields[1].default = d;
                    s.fields[1].conv = conv;
                    s.fields[1].map = map;
                    if optional {
                        s.fields[1].ty = opt(pu8());
                    }
                    let i = cat.add(Item::Struct(s));
                    cat.root(p(Ty::Item(i)), "B2", format!("{d:?} {conv:?} map={map} opt={optional}"));
                }
            }
        }
    }
    // B3: identifier shapes × rename_all
    for shape in ["a", "my_field", "my__field", "_lead", "trail_", "myField", "MyField", "Éclair", "sha256sum", "ipv4_addr", "field_1", "x2Y", "type_", "ref_", "r#type", "r#match"] {
        for ra in [None, Some(RenameAll::Camel), Some(RenameAll::Lower)] {
            let mut s = st(vec![FieldSpec::plain(shape, pu8()), FieldSpec::plain("zz_other", pu8())]);
            s.rename_all = ra;
            let i = cat.add(Item::Struct(s.clone()));
            cat.root(p(Ty::Item(i)), "B3", format!("ident {shape} {ra:?}"));
            if tier == Tier::Thorough || shape == "my_field" {
                s.deny = Deny::Default;
                let i = cat.add(Item::Struct(s));
                cat.root(p(Ty::Item(i)), "B3", format!("ident {shape} {ra:?} deny"));
            }
        }
    }
    // B5: wide structs (more than 20 fields, skipped fields interleaved): the accepted-keys list
    // and the key → field pairing must follow declaration order at any size
    for (deny, ra) in [(Deny::Default, None), (Deny::Custom, Some(RenameAll::Camel)), (Deny::No, None)] {
        let mut s = st((0..24)
            .map(|i| {
                let mut f = FieldSpec::plain(&format!("f_{}{}", (b'a' + (i / 6) as u8) as char, (b'a' + (i % 6) as u8) as char), pu8());
                f.skip = i % 5 == 0 || i == 7;
                if i % 4 == 1 {
                    f.default = DefaultSpec::Expr;
                }
                f
            })
            .collect());
        s.deny = deny;
        s.rename_all = ra;
        let i = cat.add(Item::Struct(s));
        cat.root(p(Ty::Item(i)), "B5", format!("wide struct, 24 fields, 6 skipped, {deny:?} {ra:?}"));
    }
    // B6: more fields than fit any machine word used as a "seen" mask
    for deny in [Deny::No, Deny::Default] {
        let mut s = st((0..70).map(|i| FieldSpec::plain(&format!("g{}{}", (b'a' + (i / 26) as u8) as char, (b'a' + (i % 26) as u8) as char), pu8())).collect());
        s.fields[66].default = DefaultSpec::Trait;
        s.deny = deny;
        let i = cat.add(Item::Struct(s));
        cat.root(p(Ty::Item(i)), "B6", format!("very wide struct, 70 fields, {deny:?}"));
    }
    // B4: 1-, 2- and 4-field structs
    for n in [1usize, 2, 4] {
        for deny in [Deny::No, Deny::Default] {
            let names = ["fa_x", "fbCap", "fc", "fd"];
            let mut s = st((0..n).map(|i| FieldSpec::plain(names[i], pu8())).collect());
            s.deny = deny;
            let i = cat.add(Item::Struct(s));
            cat.root(p(Ty::Item(i)), "B4", format!("{n} fields {deny:?}"));
        }
    }
}

pub fn unit_enum(n: usize, ra: Option<RenameAll>, rename_second: bool) -> EnumSpec {
    let names = ["Alpha", "BetaTwo", "gamma", "Not_Found", "EpsilonLong", "Zed"];
    EnumSpec {
        style: 0,
        tag: None,
        rename_all: ra,
        deny: Deny::No,
        validate: false,
        concrete: false,
        same_err: false,
        generic: false,
        variants: (0..n)
            .map(|i| VariantSpec {
                ident: names[i].to_string(),
                rename: if rename_second && i == 1 { Some("ren_v".into()) } else { None },
                rename_all: None,
                fields: None,
            })
            .collect(),
    }
}

pub fn tagged_enum(tag: &str) -> EnumSpec {
    EnumSpec {
        style: 0,
        tag: Some(tag.to_string()),
        rename_all: None,
        deny: Deny::No,
        validate: false,
        concrete: false,
        same_err: false,
        generic: false,
        variants: vec![
            VariantSpec { ident: "UnitV".into(), rename: None, rename_all: None, fields: None },
            VariantSpec {
                ident: "StructV".into(),
                rename: None,
                rename_all: None,
                fields: Some(vec![FieldSpec::plain("fa_x", pu8()), FieldSpec::plain("fbCap", pu8())]),
            },
            VariantSpec {
                ident: "OtherV".into(),
                rename: None,
                rename_all: None,
                // shares a field name with StructV, with a different type
                fields: Some(vec![FieldSpec::plain("fa_x", p(sc(Scalar::Bool)))]),
            },
        ],
    }
}

fn group_c(cat: &mut Catalogue, tier: Tier) {
    // C1: unit-only enums
    for n in 1..=6usize {
        for ra in [None, Some(RenameAll::Camel), Some(RenameAll::Lower)] {
            if tier == Tier::Quick && ra.is_some() && !(n == 3 || n == 6) {
                continue;
            }
            let i = cat.add(Item::Enum(unit_enum(n, ra, false)));
            cat.root(p(Ty::Item(i)), "C1", format!("unit enum {n} variants {ra:?}"));
        }
    }
    for ra in [None, Some(RenameAll::Lower)] {
        let i = cat.add(Item::Enum(unit_enum(3, ra, true)));
        cat.root(p(Ty::Item(i)), "C1", format!("unit enum renamed variant {ra:?}"));
    }
    {
        let mut e = unit_enum(3, None, false);
        e.validate = true;
        let i = cat.add(Item::Enum(e));
        cat.root(p(Ty::Item(i)), "C1", "unit enum + validate");
    }
    // wide enums: more variants than any small-table shortcut holds
    {
        let mut e = unit_enum(3, Some(RenameAll::Lower), false);
        e.variants = (0..40)
            .map(|i| VariantSpec { ident: format!("Var{}{}", (b'A' + (i / 26) as u8) as char, (b'a' + (i % 26) as u8) as char), rename: None, rename_all: None, fields: None })
            .collect();
        let i = cat.add(Item::Enum(e.clone()));
        cat.root(p(Ty::Item(i)), "C1", "unit enum, 40 variants, lowercase");
        let mut t = tagged_enum("kind");
        t.deny = Deny::Default;
        for v in e.variants.iter().take(20) {
            let mut v = v.clone();
            v.fields = Some(vec![FieldSpec::plain("fa_x", pu8())]);
            t.variants.push(v);
        }
        let i = cat.add(Item::Enum(t));
        cat.root(p(Ty::Item(i)), "C2", "tagged enum, 23 variants");
    }
    // C2: internally tagged enums
    for ra in [None, Some(RenameAll::Camel), Some(RenameAll::Lower)] {
        for vra in [None, Some(RenameAll::Camel), Some(RenameAll::Lower)] {
            for deny in [Deny::No, Deny::Default] {
                if tier == Tier::Quick && ra.is_some() && vra.is_some() && ra != vra && deny == Deny::Default {
                    continue;
                }
                let mut e = tagged_enum("kind");
                e.rename_all = ra;
                e.deny = deny;
                e.variants[1].rename_all = vra;
                let i = cat.add(Item::Enum(e));
                cat.root(p(Ty::Item(i)), "C2", format!("tagged {ra:?} variant {vra:?} {deny:?}"));
            }
        }
    }
    // variant rename, with and without rename_all
    for ra in [None, Some(RenameAll::Lower)] {
        let mut e = tagged_enum("kind");
        e.rename_all = ra;
        e.variants[1].rename = Some("ren_v".into());
        let i = cat.add(Item::Enum(e));
        cat.root(p(Ty::Item(i)), "C2", format!("tagged renamed variant {ra:?}"));
    }
    // a variant carrying both rename and rename_all, written in every order / placement
    for style in 0..4u8 {
        for deny in [Deny::No, Deny::Default] {
            let mut e = tagged_enum("kind");
            e.style = style;
            e.deny = deny;
            e.rename_all = Some(RenameAll::Lower);
            e.variants[1].rename = Some("ren_v".into());
            e.variants[1].rename_all = Some(RenameAll::Camel);
            let i = cat.add(Item::Enum(e));
            cat.root(p(Ty::Item(i)), "C2", format!("variant with rename + rename_all, style {style}, {deny:?}"));
        }
    }
    // tag key colliding with a field name / being a near-miss of one
    for (tag, deny) in [("fa_x", Deny::No), ("fa_x", Deny::Default), ("fa_xx", Deny::Default), ("fbCap", Deny::No)] {
        let mut e = tagged_enum(tag);
        e.deny = deny;
        let i = cat.add(Item::Enum(e));
        cat.root(p(Ty::Item(i)), "C2", format!("tag {tag} {deny:?}"));
    }
    // validate / custom deny / field knobs inside a variant
    {
        let mut e = tagged_enum("kind");
        e.validate = true;
        let i = cat.add(Item::Enum(e));
        cat.root(p(Ty::Item(i)), "C2", "tagged + validate");
        let mut e = tagged_enum("kind");
        e.deny = Deny::Custom;
        let i = cat.add(Item::Enum(e));
        cat.root(p(Ty::Item(i)), "C2", "tagged + custom deny");
        let mut e = tagged_enum("kind");
        {
            let fs = e.variants[1].fields.as_mut().unwrap();
            fs[0].default = DefaultSpec::Expr;
            fs[1].skip = true;
        }
        e.deny = Deny::Default;
        let i = cat.add(Item::Enum(e));
        cat.root(p(Ty::Item(i)), "C2", "tagged variant with default + skip + deny");
        let mut e = tagged_enum("kind");
        {
            let fs = e.variants[1].fields.as_mut().unwrap();
            fs[0].conv = Conv::TryFrom { by_ref: false };
            fs[1].missing_fn = true;
            fs[1].rename = Some("ren_b".into());
        }
        let i = cat.add(Item::Enum(e));
        cat.root(p(Ty::Item(i)), "C2", "tagged variant with try_from + custom missing + rename");
        let mut e = tagged_enum("kind");
        {
            let fs = e.variants[1].fields.as_mut().unwrap();
            fs[0].ty = p(vec_of(pu8()));
            fs[0].default = DefaultSpec::Trait;
        }
        e.variants[1].rename_all = Some(RenameAll::Camel);
        e.deny = Deny::Default;
        let i = cat.add(Item::Enum(e));
        cat.root(p(Ty::Item(i)), "C2", "tagged variant with defaulted Vec");
    }
    // the tag key is written verbatim: rename_all must not touch it
    for tag in ["kind_of", "kindOf", "Kind"] {
        for ra in [None, Some(RenameAll::Camel), Some(RenameAll::Lower)] {
            if tier == Tier::Quick && ra.is_none() && tag != "kind_of" {
                continue;
            }
            let mut e = tagged_enum(tag);
            e.rename_all = ra;
            let i = cat.add(Item::Enum(e));
            cat.root(p(Ty::Item(i)), "C2", format!("tag key {tag} under {ra:?}"));
        }
    }
    // a struct-like variant without any field, and one with only a skipped field
    for deny in [Deny::No, Deny::Default, Deny::Custom] {
        let mut e = tagged_enum("kind");
        e.deny = deny;
        e.variants.push(VariantSpec { ident: "EmptyV".into(), rename: None, rename_all: None, fields: Some(vec![]) });
        e.variants.push(VariantSpec {
            ident: "SkipOnlyV".into(),
            rename: None,
            rename_all: None,
            fields: Some(vec![FieldSpec { skip: true, ..FieldSpec::plain("fs", pu8()) }]),
        });
        let i = cat.add(Item::Enum(e));
        cat.root(p(Ty::Item(i)), "C2", format!("tagged with field-less struct-like variants {deny:?}"));
    }
    // single-variant tagged enums
    {
        let mut e = tagged_enum("t");
        e.variants.truncate(1);
        let i = cat.add(Item::Enum(e));
        cat.root(p(Ty::Item(i)), "C2", "tagged, one unit variant");
        let mut e = tagged_enum("t");
        e.variants.remove(0);
        e.variants.truncate(1);
        let i = cat.add(Item::Enum(e));
        cat.root(p(Ty::Item(i)), "C2", "tagged, one struct variant");
    }
}

/// Core items used for nesting.
pub struct Core {
    pub plain2: usize,
    pub unit3: usize,
    pub tagged: usize,
}

pub fn core_items(cat: &mut Catalogue) -> Core {
    let plain2 = cat.add(Item::Struct(st(vec![FieldSpec::plain("fa_x", pu8()), FieldSpec::plain("fb", pu8())])));
    let unit3 = cat.add(Item::Enum(unit_enum(3, None, false)));
    let tagged = cat.add(Item::Enum(tagged_enum("kind")));
    Core { plain2, unit3, tagged }
}

fn wrappers(inner: Ty) -> Vec<(Ty, &'static str)> {
    let pi = p(inner.clone());
    vec![
        (p(vec_of(pi.clone())), "Vec"),
        (p(opt(inner.clone())), "Option"),
        (p(bx(inner.clone())), "Box"),
        (p(Ty::Arr(Box::new(pi.clone()), 2)), "[_;2]"),
        (p(Ty::Tup(vec![pi.clone(), pu8()])), "(_, u8)"),
        (p(Ty::Map { hashed: false, key: KeyTy::Str, val: Box::new(pi.clone()) }), "BTreeMap<String,_>"),
        (p(Ty::Map { hashed: true, key: KeyTy::U8, val: Box::new(pi.clone()) }), "HashMap<u8,_>"),
    ]
}

fn group_d(cat: &mut Catalogue, tier: Tier) {
    let core = core_items(cat);
    for (ci, cname) in [(core.plain2, "plain2"), (core.unit3, "unit3"), (core.tagged, "tagged")] {
        for (w, wname) in wrappers(Ty::Item(ci)) {
            cat.root(w, "D", format!("{wname} of {cname}"));
        }
        // as a field of another struct
        let outer = st(vec![
            FieldSpec::plain("inner", p(Ty::Item(ci))),
            FieldSpec::plain("fz", pu8()),
        ]);
        let oi = cat.add(Item::Struct(outer));
        cat.root(p(Ty::Item(oi)), "D", format!("field of struct: {cname}"));
        let mut outer = st(vec![
            FieldSpec::plain("inner", p(vec_of(p(Ty::Item(ci))))),
            FieldSpec::plain("maybe", opt(p(Ty::Item(ci)))),
        ]);
        outer.deny = Deny::Default;
        let oi = cat.add(Item::Struct(outer));
        cat.root(p(Ty::Item(oi)), "D", format!("Vec and Option fields of {cname}"));
    }
    // the same key at two nesting levels (outer `fa_x` and inner `fa_x`), with attributes on both
    {
        let mut inner = st(vec![FieldSpec::plain("fa_x", pu8()), FieldSpec { default: DefaultSpec::Expr, ..FieldSpec::plain("fb", pu8()) }]);
        inner.deny = Deny::Default;
        let ii = cat.add(Item::Struct(inner));
        let mut outer = st(vec![
            FieldSpec::plain("fa_x", pu8()),
            FieldSpec::plain("fb", p(Ty::Item(ii))),
            FieldSpec { default: DefaultSpec::Trait, ..FieldSpec::plain("more", p(vec_of(p(Ty::Item(ii))))) },
        ]);
        outer.deny = Deny::Default;
        outer.rename_all = Some(RenameAll::Camel);
        let oi = cat.add(Item::Struct(outer));
        cat.root(p(Ty::Item(oi)), "D", "same keys at two nesting levels, deny on both, defaulted Vec of inner");
        // a derived struct inside a Vec inside a struct-like variant of a tagged enum inside an Option field
        let mut e = tagged_enum("kind");
        e.variants[1].fields.as_mut().unwrap().push(FieldSpec::plain("items", p(vec_of(p(Ty::Item(ii))))));
        let ei = cat.add(Item::Enum(e));
        let top = st(vec![FieldSpec::plain("maybe", opt(bx(p(Ty::Item(ei))))), FieldSpec::plain("fa_x", pu8())]);
        let ti = cat.add(Item::Struct(top));
        cat.root(p(Ty::Item(ti)), "D", "struct > Option<Box<tagged enum>> > variant > Vec > struct");
    }
    // two levels deep
    let two_level: Vec<(Ty, &str)> = {
        let inner = Ty::Item(core.plain2);
        let mut v = vec![];
        for (w1, n1) in wrappers(inner.clone()) {
            let Ty::P(w1i) = &w1 else { unreachable!() };
            for (w2, n2) in wrappers((**w1i).clone()) {
                if tier == Tier::Quick && !matches!((n1, n2), ("Vec", "Vec") | ("Vec", "BTreeMap<String,_>") | ("[_;2]", "Vec") | ("(_, u8)", "[_;2]") | ("BTreeMap<String,_>", "Option") | ("Option", "HashMap<u8,_>")) {
                    continue;
                }
                v.push((w2, Box::leak(format!("{n2} of {n1} of plain2").into_boxed_str()) as &str));
            }
        }
        v
    };
    for (t, n) in two_level {
        cat.root(t, "D", n);
    }
    // recursive types (also used at depth 128 by C12)
    let r1 = cat.add_rec(|me| {
        Item::Struct(st(vec![
            FieldSpec {
                default: DefaultSpec::None,
                ..FieldSpec::plain("next", opt(bx(p(Ty::Item(me)))))
            },
            FieldSpec::plain("v", pu8()),
        ]))
    });
    cat.root(p(Ty::Item(r1)), "D", "recursive struct (Option<Box<Self>>)");
    let r2 = cat.add_rec(|me| {
        Item::Enum(EnumSpec {
            style: 0,
            tag: Some("t".into()),
            rename_all: None,
            deny: Deny::Default,
            validate: false,
            concrete: false,
            same_err: false,
            generic: false,
            variants: vec![
                VariantSpec { ident: "Leaf".into(), rename: None, rename_all: None, fields: None },
                VariantSpec {
                    ident: "Node".into(),
                    rename: None,
                    rename_all: None,
                    fields: Some(vec![FieldSpec::plain("kids", p(vec_of(p(Ty::Item(me)))))]),
                },
            ],
        })
    });
    cat.root(p(Ty::Item(r2)), "D", "recursive tagged enum (Vec<Self>)");
}

fn group_e(cat: &mut Catalogue, _tier: Tier) {
    let core = core_items(cat);
    for via in [pu8(), p(Ty::Item(core.plain2))] {
        for fallible in [false, true] {
            for by_ref in [false, true] {
                for validate in [false, true] {
                    let i = cat.add(Item::Conv(ConvSpec { via: via.clone(), fallible, by_ref, validate, concrete: false, same_err: false }));
                    cat.root(p(Ty::Item(i)), "E", format!("container conv fallible={fallible} by_ref={by_ref} validate={validate}"));
                }
            }
        }
    }
    // conversions nested: a struct field of a container-try_from type, a Vec of them
    let c = cat.add(Item::Conv(ConvSpec { via: pu8(), fallible: true, by_ref: false, validate: true, concrete: false, same_err: false }));
    let outer = st(vec![FieldSpec::plain("cv", p(Ty::Item(c))), FieldSpec::plain("fz", pu8())]);
    let oi = cat.add(Item::Struct(outer));
    cat.root(p(Ty::Item(oi)), "E", "struct with a field of container-try_from type");
    cat.root(p(vec_of(p(Ty::Item(c)))), "E", "Vec of container-try_from type");
}

/// Group F: std containers and scalars without derive.
fn group_f(cat: &mut Catalogue, tier: Tier) {
    let core = core_items(cat);
    let elems: Vec<(Ty, bool /*hashable+ord*/)> = vec![
        (pu8(), true),
        (p(sc(Scalar::Bool)), true),
        (p(sc(Scalar::Str)), true),
        (opt(pu8()), true),
        (p(vec_of(pu8())), true),
        (p(Ty::Item(core.plain2)), false),
    ];
    for (e, hashable) in &elems {
        let b = |t: &Ty| Box::new(t.clone());
        cat.root(p(Ty::Vec(b(e))), "F", "Vec");
        for n in 0..=3usize {
            cat.root(p(Ty::Arr(b(e), n)), "F", format!("array {n}"));
        }
        if *e == pu8() {
            for n in [8usize, 33] {
                cat.root(p(Ty::Arr(b(e), n)), "F", format!("array {n}"));
            }
        }
        cat.root(p(Ty::Tup(vec![e.clone(), p(sc(Scalar::Bool))])), "F", "2-tuple");
        cat.root(p(Ty::Tup(vec![e.clone(), p(sc(Scalar::Str)), e.clone()])), "F", "3-tuple");
        if *hashable {
            cat.root(p(Ty::HSet(b(e))), "F", "HashSet");
            cat.root(p(Ty::BSet(b(e))), "F", "BTreeSet");
        }
        for key in [KeyTy::Str, KeyTy::U8, KeyTy::I32, KeyTy::Bool, KeyTy::Char] {
            if tier == Tier::Quick && *e != pu8() && !matches!(key, KeyTy::Str | KeyTy::U8) {
                continue;
            }
            for hashed in [false, true] {
                cat.root(p(Ty::Map { hashed, key, val: b(e) }), "F", "map");
            }
        }
        cat.root(p(opt(e.clone())), "F", "Option");
        cat.root(p(bx(e.clone())), "F", "Box");
    }
    cat.root(p(Ty::Cs(KeyTy::U8)), "F", "CS<u8>");
    cat.root(p(Ty::Cs(KeyTy::Str)), "F", "CS<String>");
    // depth 2
    cat.root(p(vec_of(p(vec_of(pu8())))), "F", "Vec<Vec>");
    cat.root(p(vec_of(p(Ty::Arr(Box::new(pu8()), 2)))), "F", "Vec<[_;2]>");
    cat.root(p(Ty::Arr(Box::new(p(vec_of(pu8()))), 2)), "F", "[Vec;2]");
    cat.root(
        p(Ty::Map { hashed: false, key: KeyTy::Str, val: Box::new(p(Ty::Map { hashed: false, key: KeyTy::U8, val: Box::new(pu8()) })) }),
        "F",
        "map of map",
    );
    cat.root(p(Ty::Tup(vec![p(Ty::Tup(vec![pu8(), pu8()])), p(vec_of(pu8()))])), "F", "tuple of tuple and Vec");
    cat.root(p(vec_of(opt(p(Ty::Tup(vec![pu8(), p(sc(Scalar::Str))]))))), "F", "Vec<Option<tuple>>");
    // a few scalars as roots (all 30 are covered exhaustively by C05)
    for s in [Scalar::Unit, Scalar::Char, Scalar::I8, Scalar::NzU8, Scalar::NzI8, Scalar::F32, Scalar::U64, Scalar::I64] {
        cat.root(p(sc(s)), "F", "scalar");
        cat.root(p(vec_of(p(sc(s)))), "F", "Vec of scalar");
    }
    cat.root(p(Ty::Json), "F", "serde_json::Value as a target");
}

/// Group G: mirrors of the book's examples and of the baseline tests' types.
fn group_g(cat: &mut Catalogue, _tier: Tier) {
    // book/overview: struct Search { q: Values, filter: u8 } with nested enum — mirrored by shape
    let unit = cat.add(Item::Enum(unit_enum(2, Some(RenameAll::Lower), false)));
    let mut s = st(vec![
        FieldSpec { default: DefaultSpec::Trait, ..FieldSpec::plain("q", opt(pu8())) },
        FieldSpec::plain("mode", p(Ty::Item(unit))),
        FieldSpec { default: DefaultSpec::Expr, map: true, ..FieldSpec::plain("limit", pu8()) },
    ]);
    s.deny = Deny::Default;
    s.rename_all = Some(RenameAll::Camel);
    let i = cat.add(Item::Struct(s));
    cat.root(p(Ty::Item(i)), "G", "book-like search query");
    // tests/attributes/skip.rs: skip_and_default_and_deny_unknown_fields
    let mut s = st(vec![
        FieldSpec::plain("doggo", p(sc(Scalar::Str))),
        FieldSpec { skip: true, default: DefaultSpec::Expr, ..FieldSpec::plain("catto", pu8()) },
    ]);
    s.deny = Deny::Default;
    let i = cat.add(Item::Struct(s));
    cat.root(p(Ty::Item(i)), "G", "tests::skip_and_default_and_deny_unknown_fields");
    // tests/attributes/tag.rs: tagged_enum_plus_rename
    let mut e = tagged_enum("type");
    e.rename_all = Some(RenameAll::Camel);
    e.variants[1].rename_all = Some(RenameAll::Lower);
    let i = cat.add(Item::Enum(e));
    cat.root(p(Ty::Item(i)), "G", "tests::tagged_enum_plus_rename");
}

/// Group H: shapes suggested by the fourth round of independently seeded changes.
fn group_h(cat: &mut Catalogue, tier: Tier) {
    // Option around a content that itself accepts null: null is None, never Some(content)
    for (t, note) in [
        (opt(p(sc(Scalar::Unit))), "Option<()>"),
        (opt(opt(pu8())), "Option<Option<_>>"),
        (opt(p(Ty::Json)), "Option<serde_json::Value>"),
        (opt(p(Ty::Phantom)), "Option<PhantomData>"),
        (opt(Ty::Phantom), "Option<PhantomData> (bare)"),
        (opt(bx(opt(pu8()))), "Option<Box<Option<_>>>"),
    ] {
        cat.root(p(t.clone()), "H", note);
        cat.root(p(vec_of(t.clone())), "H", format!("Vec<{note}>"));
        let mut s = st(vec![FieldSpec::plain("fa_x", t.clone()), FieldSpec::plain("fb", pu8())]);
        s.fields[0].default = DefaultSpec::Trait;
        let i = cat.add(Item::Struct(s));
        cat.root(p(Ty::Item(i)), "H", format!("struct with defaulted {note} field"));
    }
    cat.root(p(Ty::Phantom), "H", "PhantomData");
    // variants whose names spell a number or a boolean: only the *string* selects them
    {
        let mut e = unit_enum(4, None, false);
        for (v, r) in e.variants.iter_mut().zip(["1", "true", "-1", "null"]) {
            v.rename = Some(r.to_string());
        }
        let i = cat.add(Item::Enum(e));
        cat.root(p(Ty::Item(i)), "H", "unit enum with variants named 1 / true / -1 / null");
        for deny in [Deny::No, Deny::Default] {
            let mut e = tagged_enum("kind");
            e.deny = deny;
            for (v, r) in e.variants.iter_mut().zip(["true", "1", "-1"]) {
                v.rename = Some(r.to_string());
            }
            let i = cat.add(Item::Enum(e));
            cat.root(p(Ty::Item(i)), "H", format!("tagged enum with variants named true / 1 / -1, {deny:?}"));
        }
    }
    // generic derived structs (`needs_predicate` on the field of the parameter's type)
    {
        let inner = cat.add(Item::Struct(base3()));
        for (t, note) in [
            (pu8(), "P<u8>"),
            (p(vec_of(pu8())), "Vec"),
            (opt(pu8()), "Option"),
            (p(Ty::Item(inner)), "derived struct"),
        ] {
            for deny in [Deny::No, Deny::Default] {
                if tier == Tier::Quick && deny == Deny::Default && note != "derived struct" {
                    continue;
                }
                let mut s = st(vec![FieldSpec::plain("fa_x", t.clone()), FieldSpec::plain("fbCap", pu8())]);
                s.generic = true;
                s.deny = deny;
                s.rename_all = Some(RenameAll::Camel);
                let i = cat.add(Item::Struct(s));
                cat.root(p(Ty::Item(i)), "H", format!("generic struct instantiated with {note}, {deny:?}"));
            }
        }
        // const generics, two parameters with a where clause, a generic tagged enum
        {
            let mut s = st(vec![FieldSpec::plain("fa_x", pu8()), FieldSpec::plain("fb", pu8()), FieldSpec::plain("arr", p(Ty::Arr(Box::new(pu8()), 2)))]);
            s.generic = true;
            s.generic_kind = 1;
            s.deny = Deny::Default;
            let i = cat.add(Item::Struct(s.clone()));
            cat.root(p(Ty::Item(i)), "H", "struct generic over a type and a const length");
            s.fields[0].ty = p(Ty::Item(inner));
            s.fields[2].ty = p(Ty::Arr(Box::new(pu8()), 0));
            s.rename_all = Some(RenameAll::Camel);
            let i = cat.add(Item::Struct(s));
            cat.root(p(Ty::Item(i)), "H", "struct generic over a derived struct and the const length 0");
            let mut s = st(vec![FieldSpec::plain("fa_x", opt(pu8())), FieldSpec::plain("many", p(vec_of(pu8()))), FieldSpec::plain("fc", pu8())]);
            s.generic = true;
            s.generic_kind = 2;
            s.fields[2].default = DefaultSpec::Expr;
            let i = cat.add(Item::Struct(s.clone()));
            cat.root(p(Ty::Item(i)), "H", "struct generic over two types with a where clause");
            s.fields[1].ty = p(vec_of(p(Ty::Item(inner))));
            s.deny = Deny::Custom;
            s.validate = true;
            s.same_err = true;
            let i = cat.add(Item::Struct(s));
            cat.root(p(Ty::Item(i)), "H", "the same over Vec of a derived struct + custom deny + validate");
            for (t, note) in [(pu8(), "P<u8>"), (p(Ty::Item(inner)), "derived struct"), (p(vec_of(opt(pu8()))), "Vec<Option>")] {
                let mut e = tagged_enum("kind");
                e.generic = true;
                e.deny = Deny::Default;
                e.variants[1].fields.as_mut().unwrap()[0].ty = t;
                let i = cat.add(Item::Enum(e));
                cat.root(p(Ty::Item(i)), "H", format!("generic tagged enum instantiated with {note}"));
            }
        }
        // the same generic shape inside a Vec inside a tagged variant
        let mut g = st(vec![FieldSpec::plain("fa_x", pu8()), FieldSpec::plain("fb", pu8())]);
        g.generic = true;
        g.deny = Deny::Default;
        let gi = cat.add(Item::Struct(g));
        let mut e = tagged_enum("kind");
        e.variants[1].fields.as_mut().unwrap()[1].ty = p(vec_of(p(Ty::Item(gi))));
        let i = cat.add(Item::Enum(e));
        cat.root(p(Ty::Item(i)), "H", "tagged variant > Vec > generic struct");
    }
    // validate / container try_from whose function returns the container's own error type
    {
        let mut e = tagged_enum("kind");
        e.validate = true;
        e.same_err = true;
        let i = cat.add(Item::Enum(e));
        cat.root(p(Ty::Item(i)), "H", "tagged enum + validate returning the container's error type");
        let mut e = unit_enum(3, None, false);
        e.validate = true;
        e.same_err = true;
        let i = cat.add(Item::Enum(e));
        cat.root(p(Ty::Item(i)), "H", "unit enum + validate returning the container's error type");
        let inner2 = cat.add(Item::Struct(st(vec![FieldSpec::plain("fa_x", pu8()), FieldSpec::plain("fb", pu8())])));
        for via in [pu8(), p(Ty::Item(inner2))] {
            for (by_ref, validate) in [(false, false), (true, false), (false, true)] {
                let i = cat.add(Item::Conv(ConvSpec { via: via.clone(), fallible: true, by_ref, validate, concrete: false, same_err: true }));
                cat.root(p(Ty::Item(i)), "H", format!("container try_from returning the container's error type, by_ref={by_ref} validate={validate}"));
                if !by_ref && !validate {
                    cat.root(p(vec_of(p(Ty::Item(i)))), "H", "Vec of container try_from returning the container's error type");
                    let outer = st(vec![FieldSpec::plain("cv", p(Ty::Item(i))), FieldSpec::plain("fz", pu8())]);
                    let oi = cat.add(Item::Struct(outer));
                    cat.root(p(Ty::Item(oi)), "H", "struct with a field of such a container try_from type");
                }
            }
        }
        // concrete error type spelled out
        let i = cat.add(Item::Conv(ConvSpec { via: pu8(), fallible: true, by_ref: false, validate: true, concrete: true, same_err: true }));
        cat.root(p(Ty::Item(i)), "H", "container try_from + validate, error = RecA, functions returning RecA");
        let mut s = base3();
        s.validate = true;
        s.same_err = true;
        s.concrete = true;
        let i = cat.add(Item::Struct(s));
        cat.root(p(Ty::Item(i)), "H", "struct with error = RecA and validate -> RecA");
    }
    // a field-level error type over non-scalar fields, with derived types nested below it
    {
        let inner2 = cat.add(Item::Struct(st(vec![FieldSpec::plain("fa_x", pu8()), FieldSpec::plain("fb", pu8())])));
        let mut mid = st(vec![FieldSpec::plain("items", p(vec_of(p(Ty::Item(inner2))))), FieldSpec::plain("fm", pu8())]);
        mid.deny = Deny::Default;
        let mid = cat.add(Item::Struct(mid));
        let mut outer = st(vec![
            FieldSpec { err_b: true, ..FieldSpec::plain("deep", p(Ty::Item(mid))) },
            FieldSpec { err_b: true, ..FieldSpec::plain("list", p(vec_of(pu8()))) },
            FieldSpec::plain("fz", pu8()),
        ]);
        let i = cat.add(Item::Struct(outer.clone()));
        cat.root(p(Ty::Item(i)), "H", "field-level error type over a nested derived struct and over a Vec");
        outer.deny = Deny::Default;
        outer.validate = true;
        outer.fields[2].conv = Conv::TryFrom { by_ref: false };
        let i = cat.add(Item::Struct(outer));
        cat.root(p(Ty::Item(i)), "H", "the same + deny + validate + try_from on a sibling");
        let t = st(vec![
            FieldSpec { err_b: true, ..FieldSpec::plain("pair", p(Ty::Tup(vec![pu8(), p(sc(Scalar::Str))]))) },
            FieldSpec { err_b: true, default: DefaultSpec::Trait, ..FieldSpec::plain("maybe", opt(p(Ty::Item(inner2)))) },
            FieldSpec { err_b: true, ..FieldSpec::plain("byk", p(Ty::Map { hashed: false, key: KeyTy::U8, val: Box::new(pu8()) })) },
        ]);
        let i = cat.add(Item::Struct(t));
        cat.root(p(Ty::Item(i)), "H", "field-level error type over a tuple, an Option of a struct, a map");
    }
    // conversions on a field whose *declared* type is an Option (`Option<Cv>`): the intermediate
    // type alone decides what the payload may hold (null included), and the function always runs
    for conv in [Conv::From { by_ref: false }, Conv::From { by_ref: true }, Conv::TryFrom { by_ref: false }, Conv::TryFrom { by_ref: true }] {
        for via in [pu8(), opt(pu8())] {
            let mut s = base3();
            s.fields[1].ty = via.clone();
            s.fields[1].conv = conv;
            s.fields[1].conv_opt_decl = true;
            let i = cat.add(Item::Struct(s));
            cat.root(p(Ty::Item(i)), "H", format!("{conv:?} into a field declared Option<Cv>, intermediate {}", if via == pu8() { "P<u8>" } else { "Option<P<u8>>" }));
        }
    }
    {
        let mut e = tagged_enum("kind");
        let fs = e.variants[1].fields.as_mut().unwrap();
        fs[0].ty = opt(pu8());
        fs[0].conv = Conv::TryFrom { by_ref: false };
        fs[0].conv_opt_decl = true;
        let i = cat.add(Item::Enum(e));
        cat.root(p(Ty::Item(i)), "H", "tagged variant with try_from into a field declared Option<Cv>");
    }
    // a field renamed to another field's identifier / to keys that differ only by case or by
    // Unicode normalisation
    for deny in [Deny::No, Deny::Default] {
        let mut s = base3();
        s.fields[0].rename = Some("fbCap".into());
        s.fields[1].rename = Some("ren_b".into());
        s.deny = deny;
        let i = cat.add(Item::Struct(s));
        cat.root(p(Ty::Item(i)), "H", format!("field renamed to its neighbour's identifier, {deny:?}"));
        let mut s = base3();
        s.rename_all = Some(RenameAll::Camel);
        s.fields[2].rename = Some("fa_x".into());
        s.deny = deny;
        let i = cat.add(Item::Struct(s));
        cat.root(p(Ty::Item(i)), "H", format!("camelCase + a field renamed to the first field's identifier, {deny:?}"));
        let mut s = base3();
        for (f, r) in s.fields.iter_mut().zip(["name", "Name", "NAME"]) {
            f.rename = Some(r.to_string());
        }
        s.deny = deny;
        let i = cat.add(Item::Struct(s));
        cat.root(p(Ty::Item(i)), "H", format!("keys differing only by case, {deny:?}"));
        let mut s = base3();
        s.fields[0].rename = Some("\u{e9}".into());
        s.fields[1].rename = Some("e\u{301}".into());
        s.deny = deny;
        let i = cat.add(Item::Struct(s));
        cat.root(p(Ty::Item(i)), "H", format!("keys differing only by Unicode normalisation, {deny:?}"));
    }
    // two fields with the same effective key (rustc only warns): the first declared one is fed, the
    // other is never present; the accepted list names the key once per field
    for deny in [Deny::No, Deny::Default, Deny::Custom] {
        for adjacent in [true, false] {
            let mut s = base3();
            let dup = if adjacent { 1 } else { 2 };
            s.fields[dup].rename = Some("fa_x".into());
            s.fields[dup].default = DefaultSpec::Trait;
            s.deny = deny;
            let i = cat.add(Item::Struct(s));
            cat.root(p(Ty::Item(i)), "H", format!("two fields sharing a key (adjacent={adjacent}), the later one defaulted, {deny:?}"));
            // (two *required* fields sharing a key are not a meaningful program: one of them can never
            // be fed, so no behaviour satisfies the statements — C04 rightly objects to any)
        }
    }
    // variants that share their field names but not their attributes
    for deny in [Deny::No, Deny::Default] {
        let mut e = tagged_enum("kind");
        e.deny = deny;
        {
            let fs = e.variants[1].fields.as_mut().unwrap();
            fs[0].rename = Some("x1".into());
            fs[0].default = DefaultSpec::Expr;
            fs[1].skip = true;
        }
        {
            let fs = e.variants[2].fields.as_mut().unwrap();
            fs.push(FieldSpec { default: DefaultSpec::Trait, map: true, ..FieldSpec::plain("fbCap", opt(pu8())) });
        }
        e.variants.push(VariantSpec {
            ident: "ThirdV".into(),
            rename: None,
            rename_all: Some(RenameAll::Camel),
            fields: Some(vec![
                FieldSpec { conv: Conv::TryFrom { by_ref: false }, ..FieldSpec::plain("fa_x", pu8()) },
                FieldSpec { missing_fn: true, ..FieldSpec::plain("fbCap", pu8()) },
            ]),
        });
        let i = cat.add(Item::Enum(e));
        cat.root(p(Ty::Item(i)), "H", format!("variants sharing field names with different attributes, {deny:?}"));
    }
    // a map keyed by a generic user type with a path-qualified argument
    for hashed in [false, true] {
        cat.root(p(Ty::Map { hashed, key: KeyTy::Gen, val: Box::new(pu8()) }), "H", "map keyed by Gk<String>");
    }
    // a field renamed to the empty string (a legal member name), with and without rename_all / deny
    for (ra, deny) in [(None, Deny::No), (Some(RenameAll::Camel), Deny::Default), (Some(RenameAll::Lower), Deny::No)] {
        let mut s = base3();
        s.fields[1].rename = Some(String::new());
        s.rename_all = ra;
        s.deny = deny;
        let i = cat.add(Item::Struct(s));
        cat.root(p(Ty::Item(i)), "H", format!("a field renamed to the empty key, {ra:?} {deny:?}"));
    }
    // variants renamed onto each other's identifiers (a chain and a swap)
    {
        let mut e = unit_enum(3, None, false);
        let ids: Vec<String> = e.variants.iter().map(|v| v.ident.clone()).collect();
        e.variants[0].rename = Some("old".into());
        e.variants[1].rename = Some(ids[0].clone());
        let i = cat.add(Item::Enum(e.clone()));
        cat.root(p(Ty::Item(i)), "H", "unit enum: second variant renamed to the first one's identifier (chain)");
        e.variants[0].rename = Some(ids[1].clone());
        let i = cat.add(Item::Enum(e));
        cat.root(p(Ty::Item(i)), "H", "unit enum: first two variants renamed to each other's identifiers (swap)");
        let mut t = tagged_enum("kind");
        let tids: Vec<String> = t.variants.iter().map(|v| v.ident.clone()).collect();
        t.rename_all = Some(RenameAll::Lower);
        t.variants[2].rename = Some(tids[1].clone());
        t.deny = Deny::Default;
        let i = cat.add(Item::Enum(t));
        cat.root(p(Ty::Item(i)), "H", "tagged enum, lowercase: third variant renamed to the second one's identifier");
    }
    // a conversion whose intermediate type is spelled exactly like the field's own type
    for conv in [Conv::From { by_ref: false }, Conv::From { by_ref: true }, Conv::TryFrom { by_ref: false }, Conv::TryFrom { by_ref: true }] {
        let mut s = base3();
        s.fields[1].conv = conv;
        s.fields[1].conv_same_decl = true;
        let i = cat.add(Item::Struct(s));
        cat.root(p(Ty::Item(i)), "H", format!("{conv:?} whose intermediate type is the field's own type"));
    }
    // foreign errors from custom functions: nested, and next to a field-level error type
    {
        let mut inner = base3();
        inner.deny = Deny::CustomForeign;
        inner.fields[1].missing_fn = true;
        inner.fields[1].missing_foreign = true;
        let ii = cat.add(Item::Struct(inner));
        cat.root(p(vec_of(p(Ty::Item(ii)))), "H", "Vec of struct with foreign custom functions");
        let mut e = tagged_enum("kind");
        e.deny = Deny::CustomForeign;
        e.variants[1].fields.as_mut().unwrap()[0].missing_fn = true;
        e.variants[1].fields.as_mut().unwrap()[0].missing_foreign = true;
        let i = cat.add(Item::Enum(e));
        cat.root(p(Ty::Item(i)), "H", "tagged enum with foreign custom functions");
    }
}

pub fn build(tier: Tier) -> Catalogue {
    let mut cat = Catalogue::default();
    group_a(&mut cat, tier);
    group_b(&mut cat, tier);
    group_c(&mut cat, tier);
    group_d(&mut cat, tier);
    group_e(&mut cat, tier);
    group_f(&mut cat, tier);
    group_g(&mut cat, tier);
    group_h(&mut cat, tier);
    cat
}

/// The *reduced* catalogue: the roots all of whose items still type-check if the derive ignored
/// any one of their attributes (no conversions, no field-level or named error types, no generics,
/// no foreign custom functions, no data-carrying enums — these need an attribute to compile at all).
/// Used only when the full catalogue does not compile against the tree under test, so that a derive
/// which rejects or mis-compiles *some* valid items can still be judged on the others.
pub fn build_reduced(tier: Tier) -> Catalogue {
    let mut cat = build(tier);
    fn item_ok(cat: &Catalogue, i: usize, seen: &mut Vec<usize>) -> bool {
        if seen.contains(&i) {
            return true;
        }
        seen.push(i);
        let field_ok = |f: &FieldSpec, cat: &Catalogue, seen: &mut Vec<usize>| -> bool {
            f.conv == Conv::None && !f.err_b && !f.missing_foreign && ty_ok(cat, &f.ty, seen)
        };
        match &cat.items[i] {
            Item::Struct(s) => {
                !s.concrete && !s.generic && !s.same_err && s.deny != Deny::CustomForeign && s.fields.iter().all(|f| field_ok(f, cat, seen))
            }
            Item::Enum(e) => !e.concrete && !e.generic && !e.same_err && e.tag.is_none() && e.variants.iter().all(|v| v.fields.is_none()),
            Item::Conv(_) => false,
        }
    }
    fn ty_ok(cat: &Catalogue, t: &Ty, seen: &mut Vec<usize>) -> bool {
        match t {
            Ty::Sc(_) | Ty::Json | Ty::Phantom | Ty::Cs(_) => true,
            Ty::P(t) | Ty::Opt(t) | Ty::Bx(t) | Ty::Vec(t) | Ty::HSet(t) | Ty::BSet(t) | Ty::Arr(t, _) => ty_ok(cat, t, seen),
            Ty::Tup(ts) => ts.iter().all(|t| ty_ok(cat, t, seen)),
            Ty::Map { val, .. } => ty_ok(cat, val, seen),
            Ty::Item(i) => item_ok(cat, *i, seen),
        }
    }
    let keep: Vec<bool> = cat.roots.iter().map(|r| ty_ok(&cat, &r.ty, &mut vec![])).collect();
    let mut n = 0;
    cat.roots.retain(|_| {
        n += 1;
        keep[n - 1]
    });
    cat
}

/// Splits the roots round-robin into `n` shards that share the item table
/// (each shard crate emits only the items its roots reach).
pub fn shard_roots(cat: &Catalogue, n: usize, k: usize) -> Vec<usize> {
    (0..cat.roots.len()).filter(|i| i % n == k).collect()
}
