use std::{env, fs, path::Path};

fn main() {
    let cat = mc_desc::catalogue::build(mc_desc::catalogue::Tier::Quick);
    let src = mc_desc::emit::emit_catalogue(&cat);
    let out = Path::new(&env::var("OUT_DIR").unwrap()).join("cat.rs");
    fs::write(out, src).unwrap();
    println!("cargo:rerun-if-changed=build.rs");
}
