use std::{env, fs, path::Path};

fn main() {
    // VERIF_CAT_REDUCED=1: the reduced catalogue (see mc_desc::catalogue::build_reduced); the choice
    // is baked into the crate (`REDUCED`) so that the binary describes exactly what was compiled
    let reduced = env::var("VERIF_CAT_REDUCED").map(|v| v == "1").unwrap_or(false);
    let cat = if reduced {
        mc_desc::catalogue::build_reduced(mc_desc::catalogue::Tier::Quick)
    } else {
        mc_desc::catalogue::build(mc_desc::catalogue::Tier::Quick)
    };
    let mut src = mc_desc::emit::emit_catalogue(&cat);
    src.push_str(&format!("\npub const REDUCED: bool = {reduced};\n"));
    let out = Path::new(&env::var("OUT_DIR").unwrap()).join("cat.rs");
    fs::write(out, src).unwrap();
    println!("cargo:rerun-if-changed=build.rs");
    println!("cargo:rerun-if-env-changed=VERIF_CAT_REDUCED");
}
