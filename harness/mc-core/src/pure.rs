//! Properties decided by complete enumeration of a finite input space against
//! an independent specification function: C05, C13, C17, C18, C19.

use crate::doc::*;
use crate::entry::{run_rec, Src};
use crate::evidence::*;
use crate::rec::*;
use crate::scalar::*;
use deserr::IntoValue;
use mc_desc::Scalar;
use serde_json::json;
use std::collections::{BTreeSet, HashSet};
use std::sync::atomic::{AtomicUsize, Ordering};

fn threads() -> usize {
    std::env::var("VERIF_THREADS").ok().and_then(|s| s.parse().ok()).unwrap_or(16)
}

// =========================================================================================
// C17 — expected-kinds phrase
// =========================================================================================

/// Independent specification: a function of the *set* of kinds.
pub fn kinds_phrase_spec(set: &BTreeSet<Kind>) -> String {
    if set.is_empty() {
        return "a different value".to_string();
    }
    let mut parts: Vec<&str> = vec![];
    if set.contains(&Kind::Null) {
        parts.push("null");
    }
    if set.contains(&Kind::Boolean) {
        parts.push("a boolean");
    }
    if set.contains(&Kind::Float) {
        parts.push("a number");
    } else if set.contains(&Kind::Integer) && set.contains(&Kind::NegativeInteger) {
        parts.push("an integer");
    } else if set.contains(&Kind::Integer) {
        parts.push("a positive integer");
    } else if set.contains(&Kind::NegativeInteger) {
        parts.push("a negative integer");
    }
    if set.contains(&Kind::String) {
        parts.push("a string");
    }
    if set.contains(&Kind::Sequence) {
        parts.push("an array");
    }
    if set.contains(&Kind::Map) {
        parts.push("an object");
    }
    match parts.len() {
        1 => parts[0].to_string(),
        2 => format!("{} or {}", parts[0], parts[1]),
        n => format!("{}, or {}", parts[..n - 1].join(", "), parts[n - 1]),
    }
}

pub fn run_c17(tier: Tier) -> i32 {
    let rec = Recorder::new("C17", tier);
    let mut seqs: Vec<Vec<Kind>> = vec![vec![]];
    // all sequences of length 1..=5 with repetitions
    let mut layer: Vec<Vec<Kind>> = vec![vec![]];
    let max_len = if tier == Tier::Quick { 5 } else { 7 };
    for _ in 0..max_len {
        let mut next = vec![];
        for s in &layer {
            for k in Kind::ALL {
                let mut t = s.clone();
                t.push(k);
                next.push(t);
            }
        }
        seqs.extend(next.iter().cloned());
        layer = next;
    }
    let n_bounded = seqs.len();
    // every permutation of every subset
    fn perms(items: &[Kind], cur: &mut Vec<Kind>, used: &mut Vec<bool>, out: &mut Vec<Vec<Kind>>) {
        if cur.len() == items.len() {
            out.push(cur.clone());
            return;
        }
        for i in 0..items.len() {
            if !used[i] {
                used[i] = true;
                cur.push(items[i]);
                perms(items, cur, used, out);
                cur.pop();
                used[i] = false;
            }
        }
    }
    let mut n_perm = 0;
    for mask in 0u32..256 {
        let items: Vec<Kind> = (0..8).filter(|i| mask & (1 << i) != 0).map(|i| Kind::ALL[i]).collect();
        let mut out = vec![];
        perms(&items, &mut vec![], &mut vec![false; items.len()], &mut out);
        n_perm += out.len();
        seqs.extend(out);
    }
    // long lists: more entries than there are kinds (a kind may first appear after any number of
    // repetitions of others)
    let n_before_long = seqs.len();
    for a in Kind::ALL {
        for b in Kind::ALL {
            for reps in [4usize, 5, 8, 9, 16, 17, 33] {
                let mut head: Vec<Kind> = vec![];
                for _ in 0..reps {
                    head.push(a);
                    head.push(b);
                }
                for c in Kind::ALL {
                    let mut t = head.clone();
                    t.push(c);
                    seqs.push(t.clone());
                    for d in Kind::ALL {
                        if reps <= 5 {
                            let mut u = t.clone();
                            u.push(d);
                            seqs.push(u);
                        }
                    }
                }
            }
        }
    }
    // every subset in canonical order and in reverse, every element repeated 1..=4 times
    for mask in 0u32..256 {
        let items: Vec<Kind> = (0..8).filter(|i| mask & (1 << i) != 0).map(|i| Kind::ALL[i]).collect();
        for reps in 1..=4usize {
            let fwd: Vec<Kind> = items.iter().flat_map(|k| std::iter::repeat(*k).take(reps)).collect();
            let mut rev = fwd.clone();
            rev.reverse();
            // interleaved repetition: the whole set, reps times over
            let cyc: Vec<Kind> = (0..reps).flat_map(|_| items.iter().copied()).collect();
            seqs.push(fwd);
            seqs.push(rev);
            seqs.push(cyc);
        }
    }
    let n_long = seqs.len() - n_before_long;
    let mut phrases: HashSet<String> = HashSet::new();
    let mut sets: HashSet<BTreeSet<Kind>> = HashSet::new();
    for s in &seqs {
        let set: BTreeSet<Kind> = s.iter().copied().collect();
        let input: Vec<deserr::ValueKind> = s.iter().map(|k| k.to_deserr()).collect();
        let got = deserr::errors::json::value_kinds_description_json(&input);
        let want = kinds_phrase_spec(&set);
        phrases.insert(got.clone());
        sets.insert(set.clone());
        if got != want {
            rec.violation(Violation {
                property: "C17".into(),
                subject: format!("{set:?}"),
                message: format!("kinds {s:?} are described as {got:?}, expected {want:?}"),
                replay: json!({"kind": "c17", "kinds": s.iter().map(|k| format!("{k:?}")).collect::<Vec<_>>()}),
            });
        }
        if rec.want_sample() && s.len() == 3 {
            rec.sample(json!({"kinds": s.iter().map(|k| format!("{k:?}")).collect::<Vec<_>>(), "phrase": got}));
        }
    }
    // call sequences: the phrase is a function of the list alone, whatever was described before on
    // the same thread — every ordered triple (thorough: quadruple) of lists from a small alphabet,
    // each sequence on a fresh thread, every call compared with the specification
    let alphabet: Vec<Vec<Kind>> = {
        use Kind::*;
        vec![
            vec![],
            vec![Null],
            vec![Integer],
            vec![NegativeInteger, Integer],
            vec![Float, Integer, NegativeInteger],
            vec![String, Null],
            vec![Null, Null],
            vec![Boolean, Sequence, Map],
            Kind::ALL.to_vec(),
            vec![Float],
        ]
    };
    let depth = if tier == Tier::Quick { 3 } else { 4 };
    let mut n_hist = 0u64;
    let mut idx = vec![0usize; depth];
    'outer: loop {
        let lists: Vec<&Vec<Kind>> = idx.iter().map(|i| &alphabet[*i]).collect();
        let bad = std::thread::scope(|sc| {
            sc.spawn(|| {
                for (n, l) in lists.iter().enumerate() {
                    let input: Vec<deserr::ValueKind> = l.iter().map(|k| k.to_deserr()).collect();
                    let got = deserr::errors::json::value_kinds_description_json(&input);
                    let want = kinds_phrase_spec(&l.iter().copied().collect());
                    if got != want {
                        return Some((n, got, want));
                    }
                }
                None
            })
            .join()
            .unwrap()
        });
        n_hist += 1;
        if let Some((n, got, want)) = bad {
            rec.violation(Violation {
                property: "C17".into(),
                subject: "call sequence".into(),
                message: format!("call {} of the sequence {lists:?} (fresh thread) describes {:?} as {got:?}, expected {want:?}", n + 1, lists[n]),
                replay: json!({"kind": "c17-seq", "lists": lists.iter().map(|l| l.iter().map(|k| format!("{k:?}")).collect::<Vec<_>>()).collect::<Vec<_>>()}),
            });
        }
        // next index vector
        let mut p = depth;
        loop {
            if p == 0 {
                break 'outer;
            }
            p -= 1;
            idx[p] += 1;
            if idx[p] < alphabet.len() {
                break;
            }
            idx[p] = 0;
        }
    }
    rec.set_extra("call_sequences_on_fresh_threads", json!({"alphabet": alphabet.len(), "length": depth, "sequences": n_hist}));
    rec.add_counts(sets.len() as u64, seqs.len() as u64 + n_hist, seqs.len() as u64 + n_hist * depth as u64);
    let mut h = HashSet::new();
    for p in &phrases {
        h.insert(hash64(p));
    }
    rec.add_signatures(&h, &h);
    rec.set_extra("sequences_up_to_length_5", json!(n_bounded));
    rec.set_extra("permutations_of_all_256_subsets", json!(n_perm));
    rec.set_extra("long_lists_(9_to_67_entries_and_repeated_subsets)", json!(n_long));
    rec.finish(
        "model_checking",
        "complete enumeration: every sequence of value kinds of length 0..5 (quick) / 0..7 (thorough) with repetitions (8^0+…+8^n) every permutation of every one of the 256 subsets, and long lists (9–67 entries: every pair of kinds repeated 4–33 times followed by every kind / pair of kinds; every subset forwards, backwards and cyclically with 1–4 repetitions); states = distinct kind sets, transitions = sequences evaluated; each evaluated on the real value_kinds_description_json and compared with an independent specification that is a function of the set only (so equality implies order- and multiplicity-independence). Call sequences: every ordered triple (thorough: quadruple) over ten representative lists (empty, single, collapsing, duplicated, all kinds), each sequence on a fresh thread, every call compared with the specification (the phrase does not depend on earlier calls). distinct = distinct phrases produced.",
        &["the specification function kinds_phrase_spec (mc-core/src/pure.rs) states the documented phrase rules"],
    )
}

// =========================================================================================
// C18 — did-you-mean
// =========================================================================================

/// Unrestricted Damerau–Levenshtein distance over chars (adjacent
/// transpositions, substrings may be edited again), written from the textbook
/// definition with the `da` table.
pub fn damerau_levenshtein(a: &str, b: &str) -> usize {
    let a: Vec<char> = a.chars().collect();
    let b: Vec<char> = b.chars().collect();
    let (n, m) = (a.len(), b.len());
    let maxdist = n + m;
    let mut da: std::collections::HashMap<char, usize> = std::collections::HashMap::new();
    // d has (n+2) x (m+2) entries, shifted by one
    let mut d = vec![vec![0usize; m + 2]; n + 2];
    d[0][0] = maxdist;
    for i in 0..=n {
        d[i + 1][0] = maxdist;
        d[i + 1][1] = i;
    }
    for j in 0..=m {
        d[0][j + 1] = maxdist;
        d[1][j + 1] = j;
    }
    for i in 1..=n {
        let mut db = 0;
        for j in 1..=m {
            let k = *da.get(&b[j - 1]).unwrap_or(&0);
            let l = db;
            let cost = if a[i - 1] == b[j - 1] {
                db = j;
                0
            } else {
                1
            };
            d[i + 1][j + 1] = (d[i][j] + cost)
                .min(d[i + 1][j] + 1)
                .min(d[i][j + 1] + 1)
                .min(d[k][l] + (i - k - 1) + 1 + (j - l - 1));
        }
        da.insert(a[i - 1], i);
    }
    d[n + 1][m + 1]
}

pub fn did_you_mean_spec(received: &str, accepted: &[&str]) -> String {
    let budget = match received.len() {
        0..=3 => return String::new(),
        4..=7 => 1,
        8..=12 => 2,
        13..=17 => 3,
        18..=24 => 4,
        _ => 5,
    };
    let mut best: Option<(usize, &str)> = None;
    for c in accepted {
        let dist = damerau_levenshtein(received, c);
        if dist <= budget && best.map(|(bd, _)| dist < bd).unwrap_or(true) {
            best = Some((dist, c));
        }
    }
    match best {
        None => String::new(),
        Some((_, c)) => format!("did you mean `{c}`? "),
    }
}

fn words(alpha: &[char], max_len: usize) -> Vec<String> {
    let mut out = vec![String::new()];
    let mut layer = vec![String::new()];
    for _ in 0..max_len {
        let mut next = vec![];
        for w in &layer {
            for c in alpha {
                let mut t = w.clone();
                t.push(*c);
                next.push(t);
            }
        }
        out.extend(next.iter().cloned());
        layer = next;
    }
    out
}

pub fn run_c18(tier: Tier) -> i32 {
    let rec = Recorder::new("C18", tier);
    crate::explore::silence_panics();
    let evals = AtomicUsize::new(0);
    let check = |received: &str, accepted: &[&str]| {
        begin(&Script::keep_going()); // marks "code under test is running" for the panic hook
        let got = match std::panic::catch_unwind(|| deserr::errors::helpers::did_you_mean(received, accepted)) {
            Ok(g) => g,
            Err(_) => "<panicked>".to_string(),
        };
        let _ = end();
        let want = did_you_mean_spec(received, accepted);
        evals.fetch_add(1, Ordering::Relaxed);
        if got != want {
            rec.violation(Violation {
                property: "C18".into(),
                subject: format!("received length {} bytes", received.len()),
                message: format!("did_you_mean({received:?}, {accepted:?}) = {got:?}, expected {want:?}"),
                replay: json!({"kind": "c18", "received": received, "accepted": accepted}),
            });
        }
        // shape: empty, or exactly one accepted string
        if !got.is_empty() && !accepted.iter().any(|a| got == format!("did you mean `{a}`? ")) {
            rec.violation(Violation {
                property: "C18".into(),
                subject: "shape".into(),
                message: format!("suggestion {got:?} names none of {accepted:?}"),
                replay: json!({"kind": "c18", "received": received, "accepted": accepted}),
            });
        }
        got
    };
    let mut outcomes: HashSet<u64> = HashSet::new();
    let mut states = 0u64;
    // (a) all pairs over {a,b,c}^≤L
    let l1 = if tier == Tier::Quick { 6 } else { 8 };
    let w1 = words(&['a', 'b', 'c'], l1);
    let next = AtomicUsize::new(0);
    let pair_outcomes = std::sync::Mutex::new(HashSet::<u64>::new());
    std::thread::scope(|s| {
        for _ in 0..threads() {
            s.spawn(|| {
                let mut local = HashSet::new();
                loop {
                    let i = next.fetch_add(1, Ordering::SeqCst);
                    if i >= w1.len() {
                        break;
                    }
                    for c in &w1 {
                        let g = check(&w1[i], &[c.as_str()]);
                        local.insert(hash64(&(g.is_empty(), w1[i].len(), c.len())));
                    }
                }
                pair_outcomes.lock().unwrap().extend(local);
            });
        }
    });
    outcomes.extend(pair_outcomes.into_inner().unwrap());
    states += (w1.len() * w1.len()) as u64;
    // (b) all pairs over {a, é}^≤7 (byte length ≠ char length)
    let w2 = words(&['a', 'é'], 7);
    for r in &w2 {
        for c in &w2 {
            let g = check(r, &[c.as_str()]);
            outcomes.insert(hash64(&("mb", g.is_empty(), r.len(), c.chars().count())));
        }
    }
    states += (w2.len() * w2.len()) as u64;
    // (a') the same pairs pushed into every budget class: a common prefix does not change the
    // distance but raises the byte length (budgets 2..5 need received ≥ 8 / 13 / 18 / 25 bytes)
    let w3 = words(&['a', 'b', 'c'], 4);
    let mut padded = 0u64;
    for pad in [5usize, 10, 15, 22] {
        let prefix = "q".repeat(pad);
        for x in &w3 {
            let r = format!("{prefix}{x}");
            for y in &w3 {
                let c = format!("{prefix}{y}");
                let g = check(&r, &[c.as_str()]);
                outcomes.insert(hash64(&("pad", pad, g.is_empty(), x.len(), y.len())));
                padded += 1;
            }
        }
    }
    states += padded;
    // (b') pairs over {a, 日, 😀}^≤4 (3- and 4-byte characters: one edit moves the byte length by
    // up to 4), bare and behind a common prefix
    let w4 = words(&['a', '日', '😀'], 4);
    let mut wide = 0u64;
    for pad in [0usize, 5, 10] {
        let prefix = "q".repeat(pad);
        for x in &w4 {
            let r = format!("{prefix}{x}");
            for y in &w4 {
                let c = format!("{prefix}{y}");
                let g = check(&r, &[c.as_str()]);
                outcomes.insert(hash64(&("wide", pad, g.is_empty(), r.len(), c.len())));
                wide += 1;
            }
        }
    }
    states += wide;
    // (c) around every budget threshold: candidates at every exact distance 0..7
    let mut threshold_cases = 0u64;
    for len in [3usize, 4, 7, 8, 12, 13, 17, 18, 24, 25, 30, 40] {
        for base_kind in 0..2 {
            // ascii base, and a base with multi-byte characters of the same *byte* length
            let base: String = if base_kind == 0 {
                (0..len).map(|i| (b'a' + (i % 20) as u8) as char).collect()
            } else {
                let mut s = String::new();
                while s.len() + 2 <= len {
                    s.push('é');
                }
                while s.len() < len {
                    s.push('q');
                }
                s
            };
            assert_eq!(base.len(), len);
            let chars: Vec<char> = base.chars().collect();
            let mut cands: Vec<String> = vec![];
            for k in 0..=7usize.min(chars.len()) {
                // k substitutions by a fresh letter (distance exactly k)
                let mut c = chars.clone();
                for x in c.iter_mut().take(k) {
                    *x = 'Z';
                }
                cands.push(c.iter().collect());
                // k deletions
                cands.push(chars[k..].iter().collect());
                // k insertions
                let mut c: Vec<char> = vec!['Z'; k];
                c.extend(chars.iter());
                cands.push(c.iter().collect());
                // k disjoint adjacent transpositions
                let mut c = chars.clone();
                for t in 0..k {
                    if 2 * t + 1 < c.len() && c[2 * t] != c[2 * t + 1] {
                        c.swap(2 * t, 2 * t + 1);
                    }
                }
                cands.push(c.iter().collect());
            }
            for c in &cands {
                let g = check(&base, &[c.as_str()]);
                outcomes.insert(hash64(&("thr", len, g.is_empty())));
                threshold_cases += 1;
            }
            // candidate lists mixing distances (ties, closer-later, exact match last)
            for i in 0..cands.len() {
                for j in 0..cands.len() {
                    let g = check(&base, &[cands[i].as_str(), cands[j].as_str()]);
                    outcomes.insert(hash64(&("thr2", len, g)));
                    threshold_cases += 1;
                }
            }
        }
    }
    states += threshold_cases;
    // (c') long received strings whose multi-byte characters straddle every byte offset (a cut or
    // buffer at 64 / 128 / 256 bytes would split one)
    let mut long_cases = 0u64;
    for len in [62usize, 63, 64, 65, 66, 126, 127, 128, 129, 130, 254, 255, 256, 257, 258, 1000] {
        for pre in 0..4 {
            for unit in ["é", "😀", "日"] {
                let mut r = "x".repeat(pre);
                while r.len() < len {
                    r.push_str(unit);
                }
                let mut near = r.clone();
                near.push('y');
                let far = "z".repeat(len);
                for acc in [vec![near.as_str()], vec![far.as_str(), near.as_str()], vec![r.as_str()], vec![]] {
                    let g = check(&r, &acc);
                    outcomes.insert(hash64(&("long", len, g.is_empty())));
                    long_cases += 1;
                }
            }
        }
    }
    states += long_cases;
    // (d) all candidate lists of length 0..3 over a pool, for a set of received strings
    let pool = ["abcd", "abdc", "abcx", "abc", "abcde", "xbcd", "dcba", "abcdabcd", "abcdabdc", "", "abcd", "aXcd"];
    let recvs: Vec<String> = {
        let mut v: Vec<String> =
            ["abcd", "abdc", "abc", "abcde", "abcdabcd", "abcdabcx", "zzzz", "", "a", "abcdx", "xabcd", "acbd"]
                .iter()
                .map(|s| s.to_string())
                .collect();
        v.extend(words(&['a', 'b'], 5).into_iter().filter(|w| w.len() >= 4));
        v
    };
    let mut list_cases = 0u64;
    for r in &recvs {
        check(r, &[]);
        for a in 0..pool.len() {
            check(r, &[pool[a]]);
            for b in 0..pool.len() {
                let g = check(r, &[pool[a], pool[b]]);
                outcomes.insert(hash64(&("l2", g)));
                for c in 0..pool.len() {
                    let g = check(r, &[pool[a], pool[b], pool[c]]);
                    outcomes.insert(hash64(&("l3", g)));
                    list_cases += 1;
                }
            }
        }
    }
    states += list_cases;
    // (d') long accepted lists: the answer does not depend on how many names there are — one close
    // name at the first / middle / last position of lists of 6 … 70 far names, several received lengths
    {
        let far: Vec<String> = (0..70).map(|i| format!("zq{i:02}wvx{}", "k".repeat(i % 5))).collect();
        for (received, close) in [("sart", "sort"), ("lost", "last"), ("cropLenght", "cropLength"), ("attributesToRetreive", "attributesToRetrieve"), ("sort", "sort")] {
            for n in [5usize, 6, 7, 8, 9, 10, 14, 15, 16, 20, 33, 64, 70] {
                for pos in [0, n / 2, n - 1] {
                    let mut list: Vec<&str> = far.iter().take(n - 1).map(|s| s.as_str()).collect();
                    list.insert(pos.min(list.len()), close);
                    let g = check(received, &list);
                    outcomes.insert(hash64(&("long", g)));
                    states += 1;
                }
                // and no close name at all
                let list: Vec<&str> = far.iter().take(n).map(|s| s.as_str()).collect();
                let g = check(received, &list);
                outcomes.insert(hash64(&("long0", g)));
                states += 1;
            }
        }
    }
    // (e) call sequences: the suggestion is a function of (received, list) alone, whatever was asked
    // before on the same thread. Alphabet: 5 received strings × every ordering of every subset of
    // three names two of which tie; every ordered pair (thorough: triple) of calls, each sequence on
    // a fresh thread, every call compared with the specification.
    {
        let names = ["offset", "onset", "limit"];
        let mut lists: Vec<Vec<&str>> = vec![vec![]];
        for a in 0..3 {
            lists.push(vec![names[a]]);
            for b in 0..3 {
                if b != a {
                    lists.push(vec![names[a], names[b]]);
                    for c in 0..3 {
                        if c != a && c != b {
                            lists.push(vec![names[a], names[b], names[c]]);
                        }
                    }
                }
            }
        }
        let received = ["ofset", "limt", "onsett", "zzzzzz", "offset"];
        let calls: Vec<(&str, &Vec<&str>)> = received.iter().flat_map(|r| lists.iter().map(move |l| (*r, l))).collect();
        let depth = if tier == Tier::Quick { 2 } else { 3 };
        let total = calls.len().pow(depth as u32);
        let next = AtomicUsize::new(0);
        let nseq = AtomicUsize::new(0);
        std::thread::scope(|sc| {
            for _ in 0..threads() {
                sc.spawn(|| loop {
                    // blocks of sequences sharing their first call
                    let first = next.fetch_add(1, Ordering::SeqCst);
                    if first >= calls.len() {
                        break;
                    }
                    let rest = total / calls.len();
                    for r in 0..rest {
                        let mut ix = vec![first];
                        let mut x = r;
                        for _ in 1..depth {
                            ix.push(x % calls.len());
                            x /= calls.len();
                        }
                        let seq: Vec<(&str, &Vec<&str>)> = ix.iter().map(|i| calls[*i]).collect();
                        let bad = std::thread::scope(|s2| {
                            s2.spawn(|| {
                                for (n, (r, l)) in seq.iter().enumerate() {
                                    let got = deserr::errors::helpers::did_you_mean(r, l);
                                    let want = did_you_mean_spec(r, l);
                                    if got != want {
                                        return Some((n, got, want));
                                    }
                                }
                                None
                            })
                            .join()
                            .unwrap_or(Some((0, "<panicked>".into(), String::new())))
                        });
                        nseq.fetch_add(1, Ordering::Relaxed);
                        if let Some((n, got, want)) = bad {
                            rec.violation(Violation {
                                property: "C18".into(),
                                subject: "call sequence".into(),
                                message: format!("call {} of the sequence {seq:?} (fresh thread) answers {got:?}, expected {want:?}", n + 1),
                                replay: json!({"kind": "c18-seq", "calls": seq.iter().map(|(r, l)| json!({"received": r, "accepted": l})).collect::<Vec<_>>()}),
                            });
                        }
                    }
                });
            }
        });
        let n = nseq.load(Ordering::Relaxed) as u64;
        evals.fetch_add((n as usize) * depth, Ordering::Relaxed);
        states += n;
        rec.set_extra("call_sequences_on_fresh_threads", json!({"calls_in_alphabet": calls.len(), "length": depth, "sequences": n}));
    }
    // self-check of the reference distance on textbook values (harness error if wrong)
    assert_eq!(damerau_levenshtein("ca", "abc"), 2);
    assert_eq!(damerau_levenshtein("abcd", "abdc"), 1);
    assert_eq!(damerau_levenshtein("kitten", "sitting"), 3);
    assert_eq!(damerau_levenshtein("", "abc"), 3);
    let n = evals.load(Ordering::Relaxed) as u64;
    rec.add_counts(states, n, n);
    rec.add_signatures(&outcomes, &outcomes);
    rec.sample(json!({"received": "abcd", "accepted": ["abdc"], "suggestion": deserr::errors::helpers::did_you_mean("abcd", &["abdc"])}));
    rec.sample(json!({"received": "ééa", "accepted": ["éé"], "suggestion": deserr::errors::helpers::did_you_mean("ééa", &["éé"])}));
    rec.set_extra("alphabet_pairs_length", json!(l1));
    rec.finish(
        "model_checking",
        "complete enumeration of four finite spaces: (a) every (received, single candidate) pair over {a,b,c}^≤6 (quick) / ^≤8 (thorough); (a') every pair over {a,b,c}^≤4 behind a common prefix of 5 / 10 / 15 / 22 bytes, so that every distance 0..4 is met in every budget class 2..5 (transposition-with-insertion shapes distinguish true Damerau–Levenshtein from optimal string alignment only from budget 2 on); (b) every pair over {a,é}^≤7 (byte length ≠ char length, crossing the 3/4, 7/8 and 12/13 byte thresholds); (c) for byte lengths 3,4,7,8,12,13,17,18,24,25,30,40 (ascii and multi-byte bases) candidates at every distance 0..7 built by substitution / deletion / insertion / transposition, singly and in all ordered pairs; (b') every pair over {a, 日, 😀}^≤4 bare and behind 5 / 10 ASCII bytes; (c') received strings of 62…258 and 1000 bytes built from 2-, 3- and 4-byte characters behind 0–3 ASCII bytes, so that a character straddles every byte offset; (d) every candidate list of length 0..3 over a 12-string pool (ties, exact matches, empty string, duplicates) for 60 received strings; (d') one close name at the first / middle / last position of lists of 5 … 70 far names (and no close name); (e) call sequences: every ordered pair (thorough: triple) of calls over 5 received strings × all 16 orderings of the subsets of three names two of which tie, each sequence on a fresh thread (the answer does not depend on earlier calls). Oracle: independent unrestricted Damerau–Levenshtein over chars, budget by byte length, earliest minimal candidate; output empty or exactly `did you mean `X`? `.",
        &["the reference distance is the textbook unrestricted Damerau–Levenshtein (self-checked on known values at start-up)"],
    )
}

// =========================================================================================
// C19 — value pointers
// =========================================================================================

fn c19_rec(
    cur: deserr::ValuePointerRef,
    path: &mut Vec<Step>,
    max: usize,
    alphabet: &[Step],
    f: &mut dyn FnMut(deserr::ValuePointerRef, &[Step]),
) {
    f(cur, path);
    if path.len() == max {
        return;
    }
    for st in alphabet {
        let next = match st {
            Step::Key(k) => cur.push_key(k),
            Step::Index(i) => cur.push_index(*i),
        };
        path.push(st.clone());
        c19_rec(next, path, max, alphabet, f);
        path.pop();
    }
}

pub fn run_c19(tier: Tier) -> i32 {
    let rec = Recorder::new("C19", tier);
    let alphabet = vec![Step::Key("a".into()), Step::Key("b".into()), Step::Index(0), Step::Index(1)];
    let max = if tier == Tier::Quick { 6 } else { 11 };
    let n = std::cell::Cell::new(0u64);
    let mut outcomes: HashSet<u64> = HashSet::new();
    let mut check = |p: deserr::ValuePointerRef, steps: &[Step]| {
        n.set(n.get() + 1);
        let owned = p.to_owned();
        // ValuePointerComponent is not exported: compare through Debug
        let got = format!("{:?}", owned.path);
        let want = format!(
            "[{}]",
            steps
                .iter()
                .map(|s| match s {
                    Step::Key(k) => format!("Key({k:?})"),
                    Step::Index(i) => format!("Index({i})"),
                })
                .collect::<Vec<_>>()
                .join(", ")
        );
        let mut errs = vec![];
        if got != want {
            errs.push(format!("to_owned() lists {got}, pushed {want}"));
        }
        if owned.path.len() != steps.len() {
            errs.push(format!("owned pointer has {} steps, pushed {}", owned.path.len(), steps.len()));
        }
        if p.is_origin() != steps.is_empty() {
            errs.push(format!("is_origin() = {} for a path of {} steps", p.is_origin(), steps.len()));
        }
        let keys: Vec<&str> = steps
            .iter()
            .filter_map(|s| match s {
                Step::Key(k) => Some(k.as_str()),
                _ => None,
            })
            .collect();
        if p.first_field() != keys.first().copied() {
            errs.push(format!("first_field() = {:?}, expected {:?}", p.first_field(), keys.first()));
        }
        if p.last_field() != keys.last().copied() {
            errs.push(format!("last_field() = {:?}, expected {:?}", p.last_field(), keys.last()));
        }
        // the reader used by every other check must agree too
        if loc_from_ref(p) != steps {
            errs.push("chain read-back differs from pushed steps".into());
        }
        outcomes.insert(hash64(&(p.first_field().map(|s| s.to_string()), p.last_field().map(|s| s.to_string()), steps.len())));
        for m in errs {
            rec.violation(Violation {
                property: "C19".into(),
                subject: format!("path of {} steps", steps.len()),
                message: format!("{m} (path {})", loc_str(steps)),
                replay: json!({"kind": "c19", "path": loc_str(steps)}),
            });
        }
    };
    c19_rec(deserr::ValuePointerRef::Origin, &mut vec![], max, &alphabet, &mut check);
    // awkward steps: empty key, keys with path syntax in them, non-ASCII, huge index
    let odd = vec![Step::Key(String::new()), Step::Key("a.b[0]".into()), Step::Key("é".into()), Step::Index(usize::MAX)];
    c19_rec(deserr::ValuePointerRef::Origin, &mut vec![], 4, &odd, &mut check);
    // keys that look like path syntax themselves (`tags[]`, `[]`, `.`), mixed with indices
    let odd2 = vec![Step::Key("tags[]".into()), Step::Key("[]".into()), Step::Key(".".into()), Step::Index(1)];
    c19_rec(deserr::ValuePointerRef::Origin, &mut vec![], 4, &odd2, &mut check);
    // key *texts*: whatever a key spells (numbers, booleans, path syntax, blanks, case variants,
    // non-ASCII, control characters), it is a key — every path of ≤ 3 steps over these and one index
    let texts = [
        "name", "Name", "0", "1", "3", "007", "+1", "-1", "-0", "1.5", "1e3", "18446744073709551616", "true", "false", "null", "", " ",
        "a b", "_", "__proto__", "tags[]", "[]", "[0]", "a[0]", ".", "..", "a.b", "/", "~0", "#", "$", "*", "é", "e\u{301}", "日本", "😀",
        "\u{0}", "\t", "\n", "\"", "'", "\\", "%41", "r#type", "r#", "r#1x", "#type",
    ];
    let mut odd3: Vec<Step> = texts.iter().map(|t| Step::Key(t.to_string())).collect();
    odd3.push(Step::Index(0));
    c19_rec(deserr::ValuePointerRef::Origin, &mut vec![], 3, &odd3, &mut check);
    let exhaustive_n = n.get();
    // longer paths: the lexicographically first 2000 paths of each length 7..=12, with distinct keys
    let long_alpha = vec![Step::Key("k1".into()), Step::Index(7), Step::Key("k2".into()), Step::Index(0)];
    for len in (max + 1)..=(max + 6) {
        let mut count = 0;
        let mut stack: Vec<Vec<usize>> = vec![vec![]];
        while let Some(p) = stack.pop() {
            if p.len() == len {
                let steps: Vec<Step> = p.iter().map(|i| long_alpha[*i].clone()).collect();
                c19_build(&steps, &mut |ptr| check(ptr, &steps));
                count += 1;
                if count >= 2000 {
                    break;
                }
                continue;
            }
            for i in (0..long_alpha.len()).rev() {
                let mut q = p.clone();
                q.push(i);
                stack.push(q);
            }
        }
    }
    // very long paths (deeper than any document serde_json parses: locations can also be built by hand)
    for len in [100usize, 127, 128, 129, 130, 255, 256, 257, 1000, 5000] {
        for phase in 0..4 {
            let steps: Vec<Step> = (0..len).map(|i| alphabet[(i * 7 + phase + i / 5) % alphabet.len()].clone()).collect();
            c19_build(&steps, &mut |ptr| check(ptr, &steps));
        }
    }
    drop(check);
    // The same paths from several threads at once (free-running: the interleavings are *not*
    // controlled, this is a smoke test for shared scratch state, not an exhaustive exploration).
    // Every conversion is still compared with what was pushed, so an alarm here is a real one.
    let conc_bad = AtomicUsize::new(0);
    let conc_n = AtomicUsize::new(0);
    std::thread::scope(|sc| {
        for t in 0..threads() {
            let (alphabet, conc_bad, conc_n, rec) = (&alphabet, &conc_bad, &conc_n, &rec);
            sc.spawn(move || {
                for _round in 0..3 {
                    c19_rec(deserr::ValuePointerRef::Origin, &mut vec![], 5, alphabet, &mut |p, steps| {
                        conc_n.fetch_add(1, Ordering::Relaxed);
                        let got = format!("{:?}", p.to_owned().path);
                        let want = format!(
                            "[{}]",
                            steps
                                .iter()
                                .map(|s| match s {
                                    Step::Key(k) => format!("Key({k:?})"),
                                    Step::Index(i) => format!("Index({i})"),
                                })
                                .collect::<Vec<_>>()
                                .join(", ")
                        );
                        if got != want && conc_bad.fetch_add(1, Ordering::Relaxed) < 3 {
                            rec.violation(Violation {
                                property: "C19".into(),
                                subject: "concurrent conversions".into(),
                                message: format!("while {} threads convert pointers at the same time (thread {t}), to_owned() lists {got}, pushed {want}", threads()),
                                replay: json!({"kind": "c19", "path": loc_str(steps), "note": "seen only under concurrent use; the sequential replay may not reproduce it"}),
                            });
                        }
                    });
                }
            });
        }
    });
    rec.set_extra("concurrent_smoke_(free_running,_not_exhaustive)", json!({"threads": threads(), "conversions": conc_n.load(Ordering::Relaxed)}));
    let n = n.get();
    rec.add_counts(n, n, n);
    rec.add_signatures(&outcomes, &outcomes);
    rec.set_extra("paths_exhaustive_up_to_length", json!(max));
    rec.set_extra("paths_exhaustive", json!(exhaustive_n));
    rec.sample(json!({"path": ".a[0].b", "to_owned": format!("{:?}", deserr::ValuePointerRef::Origin.push_key("a").push_index(0).push_key("b").to_owned().path)}));
    rec.finish(
        "model_checking",
        "complete enumeration of every path of ≤ 6 (quick) / ≤ 11 (thorough) steps over {key a, key b, index 0, index 1}, built as real ValuePointerRef chains by recursion, every path of ≤ 4 steps over {empty key, key `a.b[0]`, key `é`, index usize::MAX} and over {key `tags[]`, key `[]`, key `.`, index 1}, every path of ≤ 3 steps over 47 key texts (number-, boolean- and null-like, path syntax, blanks, case variants, non-ASCII, control characters) and one index, plus the first 2000 paths of each of the next six lengths over a second alphabet and four paths of each length 100, 127–130, 255–257, 1000, 5000. Oracle: to_owned().path lists exactly the pushed steps in order; is_origin ⇔ no step; first_field / last_field = first / last key step or None. In addition (not exhaustive, labelled as such in the evidence): all paths of ≤ 5 steps are converted from 16 threads at once, free-running, each conversion compared with what was pushed.",
        &["ValuePointerComponent is not exported by deserr, so the owned path is compared through its Debug rendering"],
    )
}

fn c19_build(steps: &[Step], f: &mut dyn FnMut(deserr::ValuePointerRef)) {
    fn go(cur: deserr::ValuePointerRef, rest: &[Step], f: &mut dyn FnMut(deserr::ValuePointerRef)) {
        match rest.split_first() {
            None => f(cur),
            Some((Step::Key(k), r)) => go(cur.push_key(k), r, f),
            Some((Step::Index(i), r)) => go(cur.push_index(*i), r, f),
        }
    }
    go(deserr::ValuePointerRef::Origin, steps, f)
}

// =========================================================================================
// C13 — serde_json bridge
// =========================================================================================

const C13_LEAVES: &[&str] = &[
    "null",
    "true",
    "false",
    "0",
    "-0",
    "-0.0",
    "1",
    "-1",
    "18446744073709551615",
    "18446744073709551616",
    "-9223372036854775808",
    "-9223372036854775809",
    "9223372036854775807",
    "9223372036854775808",
    "9007199254740991",
    "9007199254740992",
    "9007199254740993",
    "1.0",
    "1e2",
    "5e-324",
    "1e-320",
    "1.7976931348623157e308",
    "0.1",
    "\"\"",
    "\"a\"",
    "\"é\\n\"",
];

/// All JSON texts with exactly `n` nodes, by size.
fn c13_texts(max_nodes: usize, keys: &[&str]) -> Vec<Vec<String>> {
    let mut by: Vec<Vec<String>> = vec![vec![]; max_nodes + 1];
    by[1] = C13_LEAVES.iter().map(|s| s.to_string()).collect();
    by[1].push("[]".into());
    by[1].push("{}".into());
    for n in 2..=max_nodes {
        let mut lists: Vec<Vec<String>> = vec![];
        fn compose(total: usize, by: &[Vec<String>], cur: &mut Vec<String>, out: &mut Vec<Vec<String>>) {
            if total == 0 {
                if !cur.is_empty() {
                    out.push(cur.clone());
                }
                return;
            }
            for sz in 1..=total {
                for d in &by[sz] {
                    cur.push(d.clone());
                    compose(total - sz, by, cur, out);
                    cur.pop();
                }
            }
        }
        compose(n - 1, &by, &mut vec![], &mut lists);
        let mut out = vec![];
        for l in &lists {
            out.push(format!("[{}]", l.join(",")));
            // objects over strictly increasing key choices
            fn choose(n: usize, k: usize, start: usize, cur: &mut Vec<usize>, out: &mut Vec<Vec<usize>>) {
                if cur.len() == k {
                    out.push(cur.clone());
                    return;
                }
                for i in start..n {
                    cur.push(i);
                    choose(n, k, i + 1, cur, out);
                    cur.pop();
                }
            }
            let mut combos = vec![];
            choose(keys.len(), l.len(), 0, &mut vec![], &mut combos);
            for c in combos {
                let members: Vec<String> = c.iter().zip(l).map(|(ki, v)| format!("{}:{}", serde_json::to_string(keys[*ki]).unwrap(), v)).collect();
                out.push(format!("{{{}}}", members.join(",")));
            }
        }
        by[n] = out;
    }
    by
}

fn kind_from_number_text(t: &str) -> Kind {
    // classification by serde_json's own text form of the number it holds
    if t.contains('.') || t.contains('e') || t.contains('E') {
        Kind::Float
    } else if t.starts_with('-') {
        Kind::NegativeInteger
    } else {
        Kind::Integer
    }
}

fn c13_expected_kind(v: &serde_json::Value) -> Kind {
    use serde_json::Value as J;
    match v {
        J::Null => Kind::Null,
        J::Bool(_) => Kind::Boolean,
        J::Number(n) => kind_from_number_text(&n.to_string()),
        J::String(_) => Kind::String,
        J::Array(_) => Kind::Sequence,
        J::Object(_) => Kind::Map,
    }
}

fn c13_check_value(v: &serde_json::Value, errs: &mut Vec<String>) {
    use deserr::{Map, Sequence};
    let k0 = Kind::from_deserr(IntoValue::kind(v));
    let view = v.clone().into_value();
    let k1 = Kind::from_deserr(view.kind());
    let want = c13_expected_kind(v);
    if k0 != k1 {
        errs.push(format!("kind() = {k0:?} but the consumed view is {k1:?} for {v}"));
    }
    if k1 != want {
        errs.push(format!("{v} is viewed as {k1:?}, but serde_json holds it as {want:?}"));
    }
    // number payloads must be carried exactly
    match (&view, v) {
        (deserr::Value::Integer(u), serde_json::Value::Number(n)) => {
            if n.to_string() != u.to_string() {
                errs.push(format!("integer {n} viewed as {u}"));
            }
        }
        (deserr::Value::NegativeInteger(i), serde_json::Value::Number(n)) => {
            if n.to_string() != i.to_string() {
                errs.push(format!("integer {n} viewed as {i}"));
            }
        }
        (deserr::Value::Float(f), serde_json::Value::Number(n)) => {
            if n.as_f64().map(|x| x.to_bits()) != Some(f.to_bits()) {
                errs.push(format!("number {n} viewed as float {f}"));
            }
        }
        _ => {}
    }
    match view {
        deserr::Value::Sequence(s) => {
            let arr = v.as_array().unwrap();
            if s.len() != arr.len() {
                errs.push("sequence view has another length".into());
            }
            for e in Sequence::into_iter(s) {
                c13_check_value(&e, errs);
            }
        }
        deserr::Value::Map(m) => {
            let obj = v.as_object().unwrap();
            if m.len() != obj.len() {
                errs.push("map view has another length".into());
            }
            for (k, e) in Map::into_iter(m) {
                if obj.get(&k) != Some(&e) {
                    errs.push(format!("map view yields ({k:?}, {e}) which the object does not hold"));
                }
                c13_check_value(&e, errs);
            }
        }
        _ => {}
    }
}

pub fn run_c13(tier: Tier) -> i32 {
    let rec = Recorder::new("C13", tier);
    let max_nodes = if tier == Tier::Quick { 3 } else { 5 };
    let keys = ["", "a", "b"];
    let by = c13_texts(max_nodes, &keys);
    // member names that mean something to a path / pointer / template syntax, holding containers:
    // all ordered pairs of names as siblings and as parent / child
    let awkward = [
        "~", "~0", "~1", "~01", "~10", "~~", "/", "a/b", "a~0b", "a~b", "a~1b", "//", ".", "a.b", "..", "0", "1", "-1", "-",
        "[0]", "a[0]", "[]", "#", "$", "$ref", "*", "a", "b", "id", "inner", "\\\\", "\\\"", " ", "\\u0000", "é", "日本", "__proto__",
    ];
    let vals = ["[1]", "{\"x\":[2,\"s\"]}", "[[],{}]", "3"];
    let mut extra: Vec<String> = vec![];
    for (i, k1) in awkward.iter().enumerate() {
        for v in vals {
            extra.push(format!("{{\"{k1}\":{v}}}"));
            extra.push(format!("[{{\"{k1}\":{v}}},{{\"{k1}\":{{\"{k1}\":{v}}}}}]"));
        }
        for (j, k2) in awkward.iter().enumerate() {
            if i == j {
                continue;
            }
            for (a, b) in [(vals[0], vals[1]), (vals[1], vals[3]), (vals[2], vals[0])] {
                if tier == Tier::Quick && a != vals[0] {
                    continue;
                }
                extra.push(format!("{{\"{k1}\":{a},\"{k2}\":{b}}}"));
                extra.push(format!("{{\"{k1}\":{{\"{k2}\":{a}}}}}"));
            }
            // the same name at two levels, next to / below a sibling (an enclosing member and a
            // nested member that share their name must stay where they are)
            extra.push(format!("{{\"{k1}\":1,\"{k2}\":{{\"{k1}\":2}}}}"));
            extra.push(format!("{{\"{k1}\":1,\"{k2}\":{{\"{k1}\":7,\"{k2}\":{{}}}}}}"));
            extra.push(format!("{{\"{k1}\":[{{\"{k1}\":1}}],\"{k2}\":{{\"{k1}\":{{\"{k1}\":2}},\"{k2}\":[]}}}}"));
            extra.push(format!("[{{\"{k1}\":1}},{{\"{k1}\":1,\"{k2}\":{{\"{k2}\":{{\"{k1}\":null}}}}}}]"));
        }
    }
    // number spellings: the same magnitude written as an integer, with a fraction, with an exponent —
    // around every boundary a bridge could confuse (2^31, 2^32, 2^53, 2^63, 2^64, 2^127, 2^128) and
    // inside the windows between them; each alone, in an array, as a member, and next to each other
    let mut nums: Vec<String> = vec![];
    for k in [7u32, 8, 31, 32, 52, 53, 62, 63, 64] {
        let p: u128 = 1u128 << k;
        for v in [p - 1, p, p + 1] {
            for sign in ["", "-"] {
                nums.push(format!("{sign}{v}"));
                nums.push(format!("{sign}{v}.0"));
                nums.push(format!("{sign}{v}e0"));
            }
        }
    }
    for t in [
        "1e19", "1.2e19", "9.3e18", "1e18", "1e20", "-1e19", "-9.3e18", "12345678901234567890.0", "18446744073709551615.0",
        "1.8446744073709552e19", "9.223372036854775807e18", "9223372036854775808.0", "-9223372036854775808.0", "1.5e19", "1e19.0e0".split('.').next().unwrap(),
        "0.0", "0e0", "-0e0", "1E2", "1e+2", "100e-2", "4.0e0", "0.5", "-0.5", "1e-7", "1e21", "1e22", "123456789012345678901234567890",
        "340282366920938463463374607431768211455", "340282366920938463463374607431768211456", "3.4028234663852886e38", "1e39", "1e308", "2.2250738585072014e-308",
    ] {
        nums.push(t.to_string());
    }
    nums.sort();
    nums.dedup();
    let n_nums = nums.len();
    for (i, a) in nums.iter().enumerate() {
        extra.push(a.clone());
        extra.push(format!("[{a}]"));
        extra.push(format!("{{\"n\":{a}}}"));
        let b = &nums[(i * 7 + 3) % n_nums];
        extra.push(format!("[{a},{b},{{\"m\":[{b},{a}]}}]"));
    }
    // objects that *look like* serde_json's private number token are ordinary objects
    for k in ["$serde_json::private::Number", "$serde_json::private::RawValue", "$numberLong", "$date"] {
        for v in ["\"42\"", "\"-7\"", "\"1.5\"", "\"1e3\"", "\"x\"", "42", "null"] {
            extra.push(format!("{{\"{k}\":{v}}}"));
            extra.push(format!("[{{\"{k}\":{v}}},{{\"a\":{{\"{k}\":{v}}}}}]"));
            extra.push(format!("{{\"{k}\":{v},\"b\":1}}"));
        }
    }
    rec.set_extra("number_spellings", json!(n_nums));
    rec.set_extra("documents_with_awkward_member_names", json!(extra.len()));
    let texts: Vec<&String> = by.iter().flatten().chain(extra.iter()).collect();
    let next = AtomicUsize::new(0);
    let outcomes = std::sync::Mutex::new(HashSet::<u64>::new());
    let evals = AtomicUsize::new(0);
    std::thread::scope(|s| {
        for _ in 0..threads() {
            s.spawn(|| {
                crate::explore::silence_panics();
                let mut local = HashSet::new();
                loop {
                    let i = next.fetch_add(1, Ordering::SeqCst);
                    if i >= texts.len() {
                        break;
                    }
                    let text = texts[i];
                    let v: serde_json::Value = serde_json::from_str(text).expect("generated text is valid JSON");
                    let mut errs: Vec<String> = vec![];
                    let r = std::panic::catch_unwind(|| {
                        let mut errs: Vec<String> = vec![];
                        // 1. Deserr impl for Value: never fails, yields the same document
                        begin(&Script::keep_going());
                        let back = deserr::deserialize::<serde_json::Value, serde_json::Value, RecA>(v.clone());
                        let (events, _) = end();
                        match back {
                            Ok(b) => {
                                if b != v || b.to_string() != v.to_string() {
                                    errs.push(format!("Deserr for Value turned {v} into {b}"));
                                }
                            }
                            Err(_) => errs.push(format!("Deserr for Value failed on {v}")),
                        }
                        if events.iter().any(|e| e.report_id().is_some()) {
                            errs.push(format!("Deserr for Value reported an error on {v}"));
                        }
                        // ... also through the second value source
                        let d = Doc::from_json(&v);
                        begin(&Script::keep_going());
                        let back2 = deserr::deserialize::<serde_json::Value, Doc, RecA>(d);
                        let _ = end();
                        match back2 {
                            Ok(b) => {
                                if b != v || b.to_string() != v.to_string() {
                                    errs.push(format!("through the second source {v} became {b}"));
                                }
                            }
                            Err(_) => errs.push(format!("Deserr for Value (second source) failed on {v}")),
                        }
                        // 2. From<Value<V>> round trip
                        let rt = serde_json::Value::from(v.clone().into_value());
                        if rt != v || rt.to_string() != v.to_string() {
                            errs.push(format!("From<Value> turned {v} into {rt}"));
                        }
                        // 3. kinds and classification, for the value and every sub-value
                        c13_check_value(&v, &mut errs);
                        errs
                    });
                    match r {
                        Ok(e) => errs.extend(e),
                        Err(_) => errs.push("panicked".into()),
                    }
                    evals.fetch_add(4, Ordering::Relaxed);
                    local.insert(hash64(&v.to_string()));
                    for m in errs {
                        rec.violation(Violation {
                            property: "C13".into(),
                            subject: m.split(" for ").next().unwrap_or("").chars().take(40).collect(),
                            message: format!("{m}\n  document text: {text}"),
                            replay: json!({"kind": "c13", "text": text}),
                        });
                    }
                }
                outcomes.lock().unwrap().extend(local);
            });
        }
    });
    // large documents: long arrays / wide objects / long strings round-trip unchanged too
    let mut large = 0u64;
    for n in [100usize, 4095, 4096, 4097, 65_537] {
        let arr = format!("[{}]", (0..n).map(|i| format!("{}", i as i64 - 7)).collect::<Vec<_>>().join(","));
        let obj = format!("{{{}}}", (0..n).map(|i| format!("\"k{i}\":{i}.5")).collect::<Vec<_>>().join(","));
        let st = format!("\"{}\"", "é😀a".repeat(n));
        for text in [arr, obj, st] {
            let v: serde_json::Value = serde_json::from_str(&text).unwrap();
            begin(&Script::keep_going());
            let back = deserr::deserialize::<serde_json::Value, serde_json::Value, RecA>(v.clone());
            let _ = end();
            let rt = serde_json::Value::from(v.clone().into_value());
            large += 1;
            if back.as_ref().ok() != Some(&v) || rt != v {
                rec.violation(Violation {
                    property: "C13".into(),
                    subject: "large document".into(),
                    message: format!("a document of {n} elements / members / repetitions does not round-trip (text starts {:?})", &text[..40.min(text.len())]),
                    replay: json!({"kind": "c13-large", "n": n}),
                });
            }
        }
    }
    // arrays that start with a float and go on with integers at the extremes (no "it is all
    // floats" shortcut may change them), at lengths around 32 / 64 / 256
    for n in [2usize, 31, 32, 33, 63, 64, 65, 255, 256, 257] {
        let mut items = vec!["0.5".to_string()];
        for i in 1..n {
            items.push(match i % 4 {
                0 => "18446744073709551615".to_string(),
                1 => "-9223372036854775808".to_string(),
                2 => "9007199254740993".to_string(),
                _ => format!("{i}"),
            });
        }
        let text = format!("[{}]", items.join(","));
        let v: serde_json::Value = serde_json::from_str(&text).unwrap();
        begin(&Script::keep_going());
        let back = deserr::deserialize::<serde_json::Value, serde_json::Value, RecA>(v.clone());
        let _ = end();
        let rt = serde_json::Value::from(v.clone().into_value());
        large += 1;
        let same = |a: &serde_json::Value| *a == v && a.to_string() == v.to_string();
        if !back.as_ref().map(same).unwrap_or(false) || !same(&rt) {
            rec.violation(Violation {
                property: "C13".into(),
                subject: "mixed numeric array".into(),
                message: format!("an array of {n} numbers starting with a float and continuing with extreme integers does not round-trip"),
                replay: json!({"kind": "c13-mixed", "n": n}),
            });
        }
    }
    // documents nested deeper than serde_json's *parser* accepts: a Value can hold them all the same
    for depth in [127usize, 128, 129, 130, 200, 1000] {
        for obj in [false, true] {
            let mut v = serde_json::json!(1);
            for _ in 0..depth {
                v = if obj { serde_json::json!({ "a": v }) } else { serde_json::json!([v]) };
            }
            begin(&Script::keep_going());
            let back = std::panic::catch_unwind(|| deserr::deserialize::<serde_json::Value, serde_json::Value, RecA>(v.clone()));
            let _ = end();
            let rt = serde_json::Value::from(v.clone().into_value());
            large += 1;
            let ok = matches!(&back, Ok(Ok(b)) if *b == v) && rt == v;
            if !ok {
                rec.violation(Violation {
                    property: "C13".into(),
                    subject: "deep document".into(),
                    message: format!("a document of {depth} nested {} does not round-trip through the Deserr impl for Value / From<Value>: {}", if obj { "objects" } else { "arrays" }, match &back { Ok(Ok(_)) => "changed", Ok(Err(_)) => "failed", Err(_) => "panicked" }),
                    replay: json!({"kind": "c13-deep", "depth": depth, "objects": obj}),
                });
            }
            // dropping a 1000-deep Value recursively is fine on the main thread
        }
    }
    rec.set_extra("large_documents", json!(large));
    let o = outcomes.into_inner().unwrap();
    rec.add_counts(texts.len() as u64 + large, evals.load(Ordering::Relaxed) as u64, evals.load(Ordering::Relaxed) as u64);
    rec.add_signatures(&o, &o);
    rec.set_extra("max_nodes", json!(max_nodes));
    rec.set_extra("leaf_literals", json!(C13_LEAVES));
    for t in texts.iter().rev().take(3) {
        rec.sample(json!({"document_text": t}));
    }
    rec.finish(
        "model_checking",
        "complete enumeration of every JSON document with ≤ 3 (quick) / ≤ 5 (thorough) nodes over keys {\"\", a, b} and 26 leaf literals given as *text* (0, -0, -0.0, u64::MAX, u64::MAX+1, i64::MIN, i64::MIN-1, i64::MAX, i64::MAX+1, 2^53-1, 2^53, 2^53+1, 1.0, 1e2, subnormals, f64::MAX, strings, booleans, null), parsed by serde_json; plus every ordered pair of 37 member names (JSON-pointer / path / template syntax, quotes, NUL, non-ASCII, and plain ones) as siblings holding containers, as parent / child, and as the *same name at two levels* next to and below a sibling; plus ~200 number spellings (integer / fraction / exponent forms around 2^7 … 2^64, inside the windows between them, 128-bit and float extremes) alone and nested; plus long arrays / wide objects / long strings and deep nesting. Oracle per document (self-relative): deserialize::<Value,_,_>(v) == Ok(v) with no report, also through the second value source; Value::from(v.into_value()) == v (structurally and as text, so -0.0 vs 0 is seen); kind() == into_value().kind() for v and every sub-value; numbers classified by serde_json's own text form of the number (no . / e ⇒ integer, sign ⇒ negative) and carried exactly. distinct = distinct document texts.",
        &["classification reference = the text serde_json itself prints for the number it holds"],
    )
}

// =========================================================================================
// C05 — scalars
// =========================================================================================

type ScalarRun = fn(Src, &Doc) -> Result<Doc, Vec<u32>>;

fn scalar_runner(sc: Scalar) -> ScalarRun {
    use std::num::*;
    use Scalar::*;
    match sc {
        Unit => run_rec::<()>,
        Bool => run_rec::<bool>,
        Char => run_rec::<char>,
        Str => run_rec::<String>,
        U8 => run_rec::<u8>,
        U16 => run_rec::<u16>,
        U32 => run_rec::<u32>,
        U64 => run_rec::<u64>,
        U128 => run_rec::<u128>,
        Usize => run_rec::<usize>,
        I8 => run_rec::<i8>,
        I16 => run_rec::<i16>,
        I32 => run_rec::<i32>,
        I64 => run_rec::<i64>,
        I128 => run_rec::<i128>,
        Isize => run_rec::<isize>,
        NzU8 => run_rec::<NonZeroU8>,
        NzU16 => run_rec::<NonZeroU16>,
        NzU32 => run_rec::<NonZeroU32>,
        NzU64 => run_rec::<NonZeroU64>,
        NzU128 => run_rec::<NonZeroU128>,
        NzUsize => run_rec::<NonZeroUsize>,
        NzI8 => run_rec::<NonZeroI8>,
        NzI16 => run_rec::<NonZeroI16>,
        NzI32 => run_rec::<NonZeroI32>,
        NzI64 => run_rec::<NonZeroI64>,
        NzI128 => run_rec::<NonZeroI128>,
        NzIsize => run_rec::<NonZeroIsize>,
        F32 => run_rec::<f32>,
        F64 => run_rec::<f64>,
    }
}

fn int_doc(v: i128) -> Option<Doc> {
    if v >= 0 {
        u64::try_from(v).ok().map(Doc::Int)
    } else {
        i64::try_from(v).ok().map(Doc::Neg)
    }
}

fn same_value(a: &Doc, b: &Doc) -> bool {
    let num = |d: &Doc| match d {
        Doc::Int(u) => Some(*u as i128),
        Doc::Neg(i) => Some(*i as i128),
        _ => None,
    };
    if let (Some(x), Some(y)) = (num(a), num(b)) {
        return x == y;
    }
    match (a, b) {
        (Doc::Float(x), Doc::Float(y)) => x.to_bits() == y.to_bits() || (x.is_nan() && y.is_nan()),
        _ => a == b,
    }
}

pub fn run_c05(tier: Tier) -> i32 {
    let rec = Recorder::new("C05", tier);
    // ---- payload values ----
    let range: i128 = if tier == Tier::Quick { 70_000 } else { 4_200_000 };
    let mut ints: BTreeSet<i128> = (-range..=range).collect();
    for k in 0..=64u32 {
        let p = 1i128 << k;
        for v in [p - 1, p, p + 1, -p - 1, -p, -p + 1] {
            ints.insert(v);
        }
    }
    for sc in Scalar::ALL {
        if let Some((signed, bits, _)) = sc.int_shape() {
            if bits <= 64 {
                let (lo, hi) = int_bounds(signed, bits);
                let (lo, hi): (i128, i128) = (lo.parse().unwrap(), hi.parse().unwrap());
                for v in [lo - 1, lo, lo + 1, hi - 1, hi, hi + 1] {
                    ints.insert(v);
                }
            }
        }
    }
    // integers next to the rounding midpoints of f32 (and f64): a conversion that rounds twice
    // (integer → f64 → f32) differs from the single IEEE conversion exactly there
    for k in 25..64u32 {
        let base = 1i128 << k;
        for step in [k - 24, k - 23, k - 53.min(k)] {
            if step >= k {
                continue;
            }
            let half = 1i128 << step;
            for m in [base + half, base + 3 * half, (base << 1) - half] {
                for d in [-1i128, 0, 1] {
                    ints.insert(m + d);
                    ints.insert(-(m + d));
                }
            }
        }
    }
    let mut values: Vec<Doc> = ints.iter().filter_map(|v| int_doc(*v)).collect();
    let n_ints = values.len();
    // what only a non-canonical value source can present: a zero or a small non-negative number
    // classified as "negative integer" (in range for every signed target)
    let noncanonical = [
        Doc::Neg(0),
        Doc::Neg(1),
        Doc::Neg(100),
        Doc::Neg(127),
        // floats serde_json cannot hold: IEEE conversion applies to them as to any other float
        Doc::Float(f64::NAN),
        Doc::Float(f64::INFINITY),
        Doc::Float(f64::NEG_INFINITY),
    ];
    for f in [
        0.0f64,
        -0.0,
        0.5,
        1.0,
        5.0,
        -5.0,
        16777215.0,
        16777216.0,
        16777217.0,
        9007199254740991.0,
        9007199254740992.0,
        9007199254740994.0,
        f32::MAX as f64,
        3.4028235677973366e38, // just above f32::MAX: rounds to f32::MAX or inf by IEEE
        3.4028236e38,
        1e39,
        -1e39,
        1e300,
        5e-324,
        1e-320,
        1e-46,
        1.401298464324817e-45,
        18446744073709551616.0,
        -9223372036854775809.0,
        0.1,
        255.5,
    ] {
        values.push(Doc::Float(f));
    }
    for s in crate::pure::words(&['a', 'é', '😀'], 3) {
        values.push(Doc::Str(s));
    }
    // characters that render as part of their neighbour (combining mark, variation selectors, zero
    // width joiner, a tag character): each is a `char` of its own
    for s in crate::pure::words(&['a', '❤', '\u{301}', '\u{fe0f}', '\u{fe00}', '\u{200d}', '\u{e0061}'], 3) {
        values.push(Doc::Str(s));
    }
    // strings that *spell* a value of another kind (a string is a string whatever it spells)
    for t in ["true", "false", "null", "0", "1", "-1", "255", "1.5", "1e3", "NaN", "inf", "Infinity", "[]", "{}", "\"a\"", " 1", "1 ", "TRUE", "True", "yes", "on", "()"] {
        values.push(Doc::s(t));
    }
    // one- and two-character strings over characters that escape syntaxes treat specially
    for s in crate::pure::words(&['\\', 't', 'n', '0', 'r', '"', ' ', '\t'], 2) {
        values.push(Doc::Str(s));
    }
    // long strings: multi-byte characters straddling every plausible byte offset (truncation, buffers)
    for len in [15usize, 16, 17, 31, 32, 33, 47, 48, 49, 63, 64, 65, 127, 128, 129, 255, 256, 257] {
        values.push(Doc::Str("a".repeat(len)));
        for pre in 0..2 {
            values.push(Doc::Str(format!("{}{}", "a".repeat(pre), "é".repeat(len / 2 + 1))));
        }
        for pre in 0..4 {
            values.push(Doc::Str(format!("{}{}", "a".repeat(pre), "😀".repeat(len / 4 + 1))));
        }
    }
    for d in [Doc::Null, Doc::Bool(true), Doc::Bool(false), Doc::Seq(vec![]), Doc::Seq(vec![Doc::Int(1)]), Doc::Obj(vec![]), Doc::obj(vec![("a", Doc::Int(1))])] {
        values.push(d);
    }
    let values = &values;
    let work: Vec<(Scalar, Src)> = Scalar::ALL.iter().flat_map(|s| [(*s, Src::Json), (*s, Src::Ov)]).collect();
    let next = AtomicUsize::new(0);
    let execs = AtomicUsize::new(0);
    let outcomes = std::sync::Mutex::new((HashSet::<u64>::new(), HashSet::<u64>::new()));
    std::thread::scope(|s| {
        for _ in 0..threads() {
            s.spawn(|| {
                crate::explore::silence_panics();
                let mut all = HashSet::new();
                let mut nontrivial = HashSet::new();
                loop {
                    let i = next.fetch_add(1, Ordering::SeqCst);
                    if i >= work.len() {
                        break;
                    }
                    let (sc, src) = work[i];
                    let run = scalar_runner(sc);
                    let mut bad = 0;
                    let extra: &[Doc] = if src == Src::Ov { &noncanonical } else { &[] };
                    for d in values.iter().chain(extra.iter()) {
                        begin(&Script::keep_going());
                        let r = std::panic::catch_unwind(|| run(src, d));
                        let (events, _) = end();
                        execs.fetch_add(1, Ordering::Relaxed);
                        let want = scalar_expect(sc, d);
                        let reports: Vec<&Event> = events.iter().filter(|e| e.report_id().is_some()).collect();
                        let err: Option<String> = match (&r, &want) {
                            (Err(_), _) => Some("panicked".into()),
                            (Ok(Ok(v)), ScalarExpect::Ok(w)) => {
                                if !same_value(v, w) {
                                    Some(format!("yields {} but the input is {}", v.text(), w.text()))
                                } else if !reports.is_empty() {
                                    Some("succeeds but reported an error".into())
                                } else {
                                    None
                                }
                            }
                            (Ok(Ok(v)), _) => Some(format!("accepts the value (as {}), expected {want:?}", v.text())),
                            (Ok(Err(_)), ScalarExpect::Ok(w)) => {
                                Some(format!("rejects a representable value (expected {}): {:?}", w.text(), reports.first()))
                            }
                            (Ok(Err(ids)), ScalarExpect::WrongKind(set)) => match reports.as_slice() {
                                [Event::Report { kind: RKind::IncorrectValueKind { actual, accepted }, loc, .. }] => {
                                    let acc: BTreeSet<Kind> = accepted.iter().copied().collect();
                                    if acc != *set {
                                        Some(format!("kind error lists {accepted:?}, the admissible kinds are {set:?}"))
                                    } else if !same_value(actual, d) {
                                        Some(format!("kind error quotes {} for payload {}", actual.text(), d.text()))
                                    } else if !loc.is_empty() || ids.len() != 1 {
                                        Some("kind error not at the root / not exactly one report".into())
                                    } else {
                                        None
                                    }
                                }
                                other => Some(format!("expected exactly one kind error listing {set:?}, got {other:?}")),
                            },
                            (Ok(Err(ids)), ScalarExpect::Domain(dom)) => match reports.as_slice() {
                                [Event::Report { kind: RKind::Unexpected { msg }, loc, .. }] => {
                                    if !domain_message_ok(dom, msg) {
                                        Some(format!("domain error message {msg:?} does not identify {dom:?}"))
                                    } else if !loc.is_empty() || ids.len() != 1 {
                                        Some("domain error not at the root / not exactly one report".into())
                                    } else {
                                        None
                                    }
                                }
                                other => Some(format!("expected exactly one domain error for {dom:?}, got {other:?}")),
                            },
                        };
                        let sig = hash64(&(format!("{sc:?}"), match &want {
                            ScalarExpect::Ok(v) => format!("ok:{}", v.text()),
                            ScalarExpect::WrongKind(_) => format!("kind:{:?}", d.kind()),
                            ScalarExpect::Domain(x) => format!("dom:{x:?}"),
                        }));
                        all.insert(sig);
                        if !matches!(want, ScalarExpect::Ok(Doc::Null)) {
                            nontrivial.insert(sig);
                        }
                        if let Some(m) = err {
                            bad += 1;
                            if bad <= 3 {
                                rec.violation(Violation {
                                    property: "C05".into(),
                                    subject: format!("{}", sc.rust()),
                                    message: format!("{} given {} ({:?} source): {m}", sc.rust(), d.text(), src),
                                    replay: json!({"kind": "c05", "target": format!("{sc:?}"), "source": format!("{src:?}"), "payload": doc_to_tagged(d)}),
                                });
                            }
                        }
                    }
                }
                let mut o = outcomes.lock().unwrap();
                o.0.extend(all);
                o.1.extend(nontrivial);
            });
        }
    });
    let n = execs.load(Ordering::Relaxed) as u64;
    let o = outcomes.into_inner().unwrap();
    rec.add_counts((values.len() * 30) as u64, n, n);
    rec.add_signatures(&o.0, &o.1);
    rec.set_extra("integer_range", json!(format!("[-{range}, {range}] plus ±2^k, ±2^k±1 (k ≤ 64) and every target's MIN/MAX ±1")));
    rec.set_extra("integers", json!(n_ints));
    rec.set_extra("payload_values", json!(values.len()));
    rec.set_extra("targets", json!(30));
    rec.sample(json!({"target": "u8", "payload": "256", "expected": format!("{:?}", scalar_expect(Scalar::U8, &Doc::Int(256)))}));
    rec.sample(json!({"target": "NonZeroI8", "payload": "0", "expected": format!("{:?}", scalar_expect(Scalar::NzI8, &Doc::Int(0)))}));
    rec.sample(json!({"target": "f32", "payload": "16777217", "expected": format!("{:?}", scalar_expect(Scalar::F32, &Doc::Int(16777217)))}));
    rec.finish(
        "model_checking",
        "complete enumeration: 30 scalar targets × 2 value sources × every payload of the stated set (all integers of the range, all ±2^k and ±2^k±1, every target's MIN/MAX ±1, every integer next to an f32 / f64 rounding midpoint 2^k + 2^(k-24)·{1,3} ± 1 (double-rounding detectors), zero and small non-negative numbers classified as negative and NaN / ±inf from a non-canonical source, all strings of ≤ 2 characters over {backslash, t, n, 0, r, double quote, space, tab}, 26 floats incl. ±0, subnormals, f32::MAX neighbours, 2^24±1, 2^53±1, huge; all strings of 0..3 scalar values over {a, é, 😀} and over {a, ❤, U+0301, U+FE0F, U+FE00, U+200D, U+E0061}; 22 strings that spell a value of another kind (`true`, `null`, `1`, `1.5`, `[]`, …); 126 long strings of 15..257+ bytes whose multi-byte characters straddle every byte offset; every non-scalar kind). Each executed on the real deserialize with a recording error type. Oracle: independent i128/decimal-string specification — success ⇔ kind admissible ∧ value in domain; result equals the input (floats: the correctly rounded conversion computed from the exact decimal expansion); wrong kind ⇒ exactly one IncorrectValueKind whose accepted set is the admissible set and whose actual is the payload; domain violation ⇒ exactly one Unexpected whose numeric tokens contain the received number and the violated bound (or mention a zero / the string and its length / empty).",
        &["float reference = Rust's correctly rounded decimal parser applied to the exact decimal expansion of the input"],
    )
}
