//! Executions of the real code under a scripted environment, and the stateless
//! exploration of the decision tree of answers (DESIGN.md §3.5).

use crate::doc::*;
use crate::entry::*;
use crate::rec::*;
use std::panic::{catch_unwind, AssertUnwindSafe};

#[derive(Clone, Debug, PartialEq)]
pub struct Outcome {
    /// `Ok(dump)` or `Err(ids of the returned error)`
    pub result: Result<Doc, Vec<u32>>,
    pub events: Vec<Event>,
    pub decisions: usize,
    pub panicked: Option<String>,
}

impl Outcome {
    /// The answers actually given, one per decision, in order (`true` = Break).
    pub fn answers(&self) -> Vec<bool> {
        self.events.iter().filter(|e| e.is_decision()).map(|e| e.brk()).collect()
    }
    /// Event index of decision number `k`.
    pub fn decision_pos(&self, k: usize) -> Option<usize> {
        self.events.iter().enumerate().filter(|(_, e)| e.is_decision()).nth(k).map(|(i, _)| i)
    }
    pub fn report_ids(&self) -> Vec<u32> {
        self.events.iter().filter_map(|e| e.report_id()).collect()
    }
    pub fn reports(&self) -> Vec<&Event> {
        self.events.iter().filter(|e| e.report_id().is_some()).collect()
    }
}

/// Panics of the code under test are caught and judged by the checks; panics of the harness
/// itself (outside an execution) must stay loud.
pub fn silence_panics() {
    std::panic::set_hook(Box::new(|info| {
        let in_execution = EXEC.with(|e| e.try_borrow().map(|e| e.active).unwrap_or(true));
        if !in_execution {
            eprintln!("HARNESS PANIC (machinery error, not a verdict): {info}");
        }
    }));
}

pub fn execute(entry: &Entry, src: Src, doc: &Doc, script: &Script) -> Outcome {
    begin(script);
    let r = catch_unwind(AssertUnwindSafe(|| (entry.run_rec)(src, doc)));
    let (events, decisions) = end();
    match r {
        Ok(result) => Outcome { result, events, decisions, panicked: None },
        Err(p) => {
            let msg = p
                .downcast_ref::<&str>()
                .map(|s| s.to_string())
                .or_else(|| p.downcast_ref::<String>().cloned())
                .unwrap_or_else(|| "<non-string panic>".to_string());
            Outcome { result: Err(vec![]), events, decisions, panicked: Some(msg) }
        }
    }
}

#[derive(Clone, Copy, Debug, Default)]
pub struct TreeStats {
    pub executions: usize,
    /// the complete decision tree was explored
    pub complete: bool,
    /// edges of the decision tree followed (one per deviation taken)
    pub edges: usize,
}

/// Explores answer scripts for one (type, source, payload).
///
/// * if the decision tree has at most `max_leaves` leaves, every Continue/Break
///   sequence the error type could give is executed (stateless DFS: re-run with a
///   prefix, branch on every later decision);
/// * otherwise: all switch-once scripts `C^k B^ω`, all scripts with ≤ `d` Breaks
///   on a Continue default and all scripts with ≤ `d` Continues on a Break default.
///
/// `visit` is called once per executed script. A prefix that asks for a decision
/// the execution does not have is a hard error (nondeterminism).
pub fn explore_scripts(
    run: &dyn Fn(&Script) -> Outcome,
    max_leaves: usize,
    d: usize,
    visit: &mut dyn FnMut(&Script, &Outcome),
) -> TreeStats {
    let mut stats = TreeStats::default();
    // --- complete DFS with a leaf cap ---
    let mut stack: Vec<Vec<bool>> = vec![vec![]];
    let mut results: Vec<(Script, Outcome)> = vec![];
    let mut capped = false;
    while let Some(prefix) = stack.pop() {
        let script = Script { prefix: prefix.clone(), default: false };
        let out = run(&script);
        stats.executions += 1;
        assert!(
            out.decisions >= prefix.len() || out.panicked.is_some(),
            "replay diverged: prefix of {} answers but only {} decisions",
            prefix.len(),
            out.decisions
        );
        let answers = out.answers();
        for i in prefix.len()..answers.len() {
            let mut p = answers[..i].to_vec();
            p.push(true);
            stack.push(p);
            stats.edges += 1;
        }
        results.push((script, out));
        if results.len() + stack.len() > max_leaves {
            capped = true;
            break;
        }
    }
    if !capped {
        stats.complete = true;
        for (s, o) in &results {
            visit(s, o);
        }
        return stats;
    }
    // --- bounded families ---
    drop(results);
    let keep = run(&Script::keep_going());
    stats.executions += 1;
    let n = keep.decisions;
    visit(&Script::keep_going(), &keep);
    let mut seen: std::collections::HashSet<Script> = std::collections::HashSet::new();
    seen.insert(Script::keep_going());
    let mut run_one = |s: Script, stats: &mut TreeStats, visit: &mut dyn FnMut(&Script, &Outcome)| {
        if seen.insert(s.clone()) {
            let o = run(&s);
            stats.executions += 1;
            stats.edges += 1;
            visit(&s, &o);
        }
    };
    // switch-once: C^k B^ω for every k ≤ n
    for k in 0..=n {
        run_one(Script::switch_at(k), &mut stats, visit);
    }
    // ≤ d Breaks on a Continue default, ≤ d Continues on a Break default
    for default in [false, true] {
        let mut positions: Vec<Vec<usize>> = vec![vec![]];
        for _ in 0..d {
            let mut next = vec![];
            for p in &positions {
                let start = p.last().map(|x| x + 1).unwrap_or(0);
                for i in start..n {
                    let mut q = p.clone();
                    q.push(i);
                    next.push(q);
                }
            }
            for p in &next {
                let len = p.last().unwrap() + 1;
                let mut prefix = vec![default; len];
                for &i in p {
                    prefix[i] = !default;
                }
                run_one(Script { prefix, default }, &mut stats, visit);
            }
            positions = next;
        }
    }
    stats
}
