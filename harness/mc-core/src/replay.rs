//! `run replay <file>`: re-executes the single case of a violation artefact
//! without the explorer — twice, asserting identical logs — and re-applies the
//! property's oracle.  Exit 1 + VIOLATION line if the violation reproduces,
//! 0 if not, 2 on a machinery error (nondeterminism, unreadable file).

use crate::doc::*;
use crate::engine::*;
use crate::entry::*;
use crate::evidence::*;
use crate::explore::*;
use crate::invariance::*;
use crate::rec::*;
use mc_desc::Scalar;

/// Catalogue roots are looked up by their type text (indices shift when the catalogue grows).
fn root_of(e: &Engine, r: &serde_json::Value) -> usize {
    if let Some(t) = r["type"].as_str() {
        if let Some(i) = (0..e.cat.roots.len()).find(|i| mc_desc::emit::ty_str(&e.cat.roots[*i].ty, e.cat) == t) {
            return i;
        }
    }
    r["root"].as_u64().unwrap() as usize
}

fn src_of(s: &str) -> Src {
    if s == "Ov" {
        Src::Ov
    } else {
        Src::Json
    }
}

pub fn replay(e: &Engine, path: &str) -> i32 {
    let Ok(text) = std::fs::read_to_string(path) else {
        eprintln!("cannot read {path}");
        return 2;
    };
    let j: serde_json::Value = match serde_json::from_str(&text) {
        Ok(j) => j,
        Err(err) => {
            eprintln!("{path}: {err}");
            return 2;
        }
    };
    let prop = j["property"].as_str().unwrap_or("").to_string();
    let r = &j["replay"];
    silence_panics();
    let verdict: Result<(), String> = match r["kind"].as_str().unwrap_or("") {
        "catalogue" => {
            let ri = root_of(e, r);
            let src = src_of(r["source"].as_str().unwrap_or("Json"));
            let doc = doc_from_tagged(&r["payload"]);
            let script = Script::parse(r["script"].as_str().unwrap());
            let Some(sp) = crate::props::spec(&prop) else {
                eprintln!("no catalogue oracle for {prop}");
                return 2;
            };
            let root = &e.cat.roots[ri];
            let entry = &e.entries[ri];
            let keep = execute(entry, src, &doc, &Script::keep_going());
            let out = execute(entry, src, &doc, &script);
            let out2 = execute(entry, src, &doc, &script);
            if out != out2 {
                eprintln!("MACHINERY ERROR: the same script produced two different logs");
                return 2;
            }
            println!("type:    {}", mc_desc::emit::ty_str(&root.ty, e.cat));
            println!("payload: {}", doc.text());
            println!("source:  {src:?}   script: {}", script.text());
            println!("result:  {:?}", out.result);
            for (i, ev) in out.events.iter().enumerate() {
                println!("  #{i} {ev:?}");
            }
            let tag_exempt = tag_exemptions(e.cat, &root.ty);
            let case = Case { cat: e.cat, root: ri, ty: &root.ty, src, payload: &doc, plain: doc.is_plain(), tag_exempt: &tag_exempt };
            (sp.check)(&case, &script, &out, &keep)
        }
        "extras" => {
            let ri = root_of(e, r);
            let src = src_of(r["source"].as_str().unwrap_or("Json"));
            let a = doc_from_tagged(&r["payload"]);
            let b = doc_from_tagged(&r["payload_with_extras"]);
            let entry = &e.entries[ri];
            let oa = execute(entry, src, &a, &Script::keep_going());
            let ob = execute(entry, src, &b, &Script::keep_going());
            println!("without extras: {} → {:?}", a.text(), signature(&oa));
            println!("with extras:    {} → {:?}", b.text(), signature(&ob));
            // the position of the extras = longest common structure; compare with every ancestor masked
            let mut ok = false;
            let mut mask: Loc = vec![];
            loop {
                if signature_masked(&oa, Some(&mask)) == signature_masked(&ob, Some(&mask)) {
                    ok = true;
                    break;
                }
                // descend along the first differing member
                let (Some(x), Some(y)) = (a.resolve(&mask), b.resolve(&mask)) else { break };
                let next = match (x, y) {
                    (Doc::Obj(m), Doc::Obj(n)) => m.iter().find(|(k, v)| n.iter().any(|(k2, v2)| k2 == k && v2 != v)).map(|(k, _)| Step::Key(k.clone())),
                    (Doc::Seq(m), Doc::Seq(n)) => m.iter().zip(n).position(|(p, q)| p != q).map(Step::Index),
                    _ => None,
                };
                match next {
                    Some(s) => mask.push(s),
                    None => break,
                }
            }
            if ok {
                Ok(())
            } else {
                Err("adding unknown members changed the outcome".into())
            }
        }
        "perm" => {
            let ri = root_of(e, r);
            let a = doc_from_tagged(&r["order1"]);
            let b = doc_from_tagged(&r["order2"]);
            let entry = &e.entries[ri];
            let oa = execute(entry, Src::Ov, &a, &Script::keep_going());
            let ob = execute(entry, Src::Ov, &b, &Script::keep_going());
            let fa = execute(entry, Src::Ov, &a, &Script::fail_fast());
            let fb = execute(entry, Src::Ov, &b, &Script::fail_fast());
            println!("order 1: {} → {:?}", a.text(), signature(&oa));
            println!("order 2: {} → {:?}", b.text(), signature(&ob));
            if signature(&oa) != signature(&ob) || fa.result.as_ref().ok() != fb.result.as_ref().ok() {
                Err("the outcome depends on the member order".into())
            } else {
                Ok(())
            }
        }
        "wide-names" => {
            let t = r["text"].as_str().unwrap_or("");
            let names = mc_desc::emit::wide_names();
            let want = names.iter().position(|n| n == t);
            let got = crate::names::wide_probe().map(|p| p(t));
            println!("string {t:?}: selects {got:?}, expected {want:?}");
            match got {
                Some(g) if g == want => Ok(()),
                Some(g) => Err(format!("selects variant #{g:?}, expected #{want:?}")),
                None => Err("MACHINERY: probe not registered".into()),
            }
        }
        "history" => crate::history::replay_history(e, r, &|x| root_of(e, x)),
        "builtin-totality" => {
            let ri = root_of(e, r);
            let doc = doc_from_tagged(&r["payload"]);
            let src = src_of(r["source"].as_str().unwrap_or("Json"));
            let entry = &e.entries[ri];
            let run = if r["error_type"].as_str() == Some("QueryParamError") { entry.run_query.unwrap() } else { entry.run_json.unwrap() };
            println!("payload: {} (source {src:?})", doc.text());
            begin(&Script::keep_going());
            let res = std::panic::catch_unwind(|| run(src, &doc));
            let _ = end();
            match res {
                Ok(x) => {
                    println!("returned: {x:?}");
                    Ok(())
                }
                Err(_) => Err("deserialize panicked".to_string()),
            }
        }
        "message" => {
            let ri = root_of(e, r);
            let doc = doc_from_tagged(&r["payload"]);
            let query = r["query"].as_bool().unwrap_or(false);
            let src = src_of(r["source"].as_str().unwrap_or("Json"));
            let entry = &e.entries[ri];
            let keep = execute(entry, src, &doc, &Script::keep_going());
            let first = keep.events.iter().find(|ev| ev.report_id().is_some());
            let run = if query { entry.run_query.unwrap() } else { entry.run_json.unwrap() };
            begin(&Script::keep_going());
            let got = std::panic::catch_unwind(|| run(src, &doc));
            let _ = end();
            println!("payload: {}", doc.text());
            println!("first keep-going report: {first:?}");
            println!("message: {got:?}");
            match (got, first) {
                (Err(_), _) => Err("deserialize panicked".to_string()),
                (Ok(Err(m)), Some(f)) => {
                    let want = crate::messages::expected_message(f, query);
                    if m == want {
                        Ok(())
                    } else {
                        Err(format!("message {m:?} does not describe the first report; expected {want:?}"))
                    }
                }
                (Ok(Ok(_)), None) => Ok(()),
                (a, b) => Err(format!("{a:?} vs first report {b:?}")),
            }
        }
        "c17" => {
            let kinds: Vec<Kind> = r["kinds"]
                .as_array()
                .unwrap()
                .iter()
                .map(|k| *Kind::ALL.iter().find(|x| format!("{x:?}") == k.as_str().unwrap()).unwrap())
                .collect();
            let input: Vec<deserr::ValueKind> = kinds.iter().map(|k| k.to_deserr()).collect();
            let got = deserr::errors::json::value_kinds_description_json(&input);
            let want = crate::pure::kinds_phrase_spec(&kinds.iter().copied().collect());
            println!("{kinds:?} → {got:?} (specification: {want:?})");
            if got == want {
                Ok(())
            } else {
                Err(format!("described as {got:?}, expected {want:?}"))
            }
        }
        "c17-seq" => {
            let lists: Vec<Vec<Kind>> = r["lists"]
                .as_array()
                .unwrap()
                .iter()
                .map(|l| l.as_array().unwrap().iter().map(|k| *Kind::ALL.iter().find(|x| format!("{x:?}") == k.as_str().unwrap()).unwrap()).collect())
                .collect();
            std::thread::scope(|s| {
                s.spawn(|| {
                    for l in &lists {
                        let input: Vec<deserr::ValueKind> = l.iter().map(|k| k.to_deserr()).collect();
                        let got = deserr::errors::json::value_kinds_description_json(&input);
                        let want = crate::pure::kinds_phrase_spec(&l.iter().copied().collect());
                        println!("{l:?} → {got:?} (specification: {want:?})");
                        if got != want {
                            return Err(format!("in this sequence {l:?} is described as {got:?}, expected {want:?}"));
                        }
                    }
                    Ok(())
                })
                .join()
                .unwrap()
            })
        }
        "c18-seq" => {
            let calls: Vec<(String, Vec<String>)> = r["calls"]
                .as_array()
                .unwrap()
                .iter()
                .map(|c| (c["received"].as_str().unwrap().to_string(), c["accepted"].as_array().unwrap().iter().map(|a| a.as_str().unwrap().to_string()).collect()))
                .collect();
            std::thread::scope(|s| {
                s.spawn(|| {
                    for (rcv, acc) in &calls {
                        let acc: Vec<&str> = acc.iter().map(|a| a.as_str()).collect();
                        let got = deserr::errors::helpers::did_you_mean(rcv, &acc);
                        let want = crate::pure::did_you_mean_spec(rcv, &acc);
                        println!("did_you_mean({rcv:?}, {acc:?}) = {got:?} (specification: {want:?})");
                        if got != want {
                            return Err(format!("in this sequence the suggestion is {got:?}, expected {want:?}"));
                        }
                    }
                    Ok(())
                })
                .join()
                .unwrap()
            })
        }
        "c18" => {
            let received = r["received"].as_str().unwrap();
            let acc: Vec<&str> = r["accepted"].as_array().unwrap().iter().map(|a| a.as_str().unwrap()).collect();
            let got = deserr::errors::helpers::did_you_mean(received, &acc);
            let want = crate::pure::did_you_mean_spec(received, &acc);
            println!("did_you_mean({received:?}, {acc:?}) = {got:?} (specification: {want:?})");
            if got == want {
                Ok(())
            } else {
                Err(format!("suggestion {got:?}, expected {want:?}"))
            }
        }
        "c05" => {
            let target = r["target"].as_str().unwrap();
            let sc = *Scalar::ALL.iter().find(|s| format!("{s:?}") == target).unwrap();
            let src = src_of(r["source"].as_str().unwrap_or("Json"));
            let doc = doc_from_tagged(&r["payload"]);
            let want = crate::scalar::scalar_expect(sc, &doc);
            println!("{} given {} — specification: {want:?}", sc.rust(), doc.text());
            println!("re-run the sweep to re-apply the oracle: ./run C05 quick (the case is inside the quick space if |value| ≤ 70000 or a boundary value)");
            let _ = src;
            Err("C05 artefacts are re-checked by the sweep itself".into())
        }
        other => {
            eprintln!("replay kind {other:?} is handled by `./run {prop} quick` (the case is part of the enumerated space) — artefact printed:");
            println!("{}", serde_json::to_string_pretty(r).unwrap());
            return 2;
        }
    };
    match verdict {
        Ok(()) => {
            println!("no violation reproduced");
            0
        }
        Err(m) => {
            println!("VIOLATION property={prop} replay={path}");
            println!("  {m}");
            1
        }
    }
}
