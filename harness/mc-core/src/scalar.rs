//! Independent specification of scalar targets (C05), in i128 arithmetic and
//! decimal strings; shared by the C05 sweep and the reference interpreter.

use crate::doc::*;
use mc_desc::Scalar;
use std::collections::BTreeSet;

#[derive(Clone, Debug, PartialEq)]
pub enum Domain {
    /// number above the target's maximum
    TooLarge { received: String, bound: String },
    /// number below the target's minimum
    TooSmall { received: String, bound: String },
    /// zero given to a NonZero target
    Zero,
    /// empty string given to `char`
    CharEmpty,
    /// string of `count` (≥ 2) characters given to `char`
    CharLen { string: String, count: usize },
}

#[derive(Clone, Debug, PartialEq)]
pub enum ScalarExpect {
    /// succeeds with this value (as dumped)
    Ok(Doc),
    /// the kind is not admissible: exactly one IncorrectValueKind with this set
    WrongKind(BTreeSet<Kind>),
    /// the kind is admissible but the value lies outside the domain
    Domain(Domain),
}

pub fn admissible(sc: Scalar) -> BTreeSet<Kind> {
    use Scalar::*;
    let v: &[Kind] = match sc {
        Unit => &[Kind::Null],
        Bool => &[Kind::Boolean],
        Char | Str => &[Kind::String],
        F32 | F64 => &[Kind::Float, Kind::Integer, Kind::NegativeInteger],
        s => {
            let (signed, _, _) = s.int_shape().unwrap();
            if signed {
                &[Kind::Integer, Kind::NegativeInteger]
            } else {
                &[Kind::Integer]
            }
        }
    };
    v.iter().copied().collect()
}

/// (min, max) of an integer target as decimal strings, computed without using
/// the target type itself.
pub fn int_bounds(signed: bool, bits: u32) -> (String, String) {
    fn pow2(bits: u32) -> Vec<u8> {
        // little-endian decimal digits of 2^bits
        let mut d = vec![1u8];
        for _ in 0..bits {
            let mut carry = 0;
            for x in d.iter_mut() {
                let v = *x * 2 + carry;
                *x = v % 10;
                carry = v / 10;
            }
            if carry > 0 {
                d.push(carry);
            }
        }
        d
    }
    fn minus_one(mut d: Vec<u8>) -> Vec<u8> {
        for x in d.iter_mut() {
            if *x > 0 {
                *x -= 1;
                break;
            }
            *x = 9;
        }
        while d.len() > 1 && *d.last().unwrap() == 0 {
            d.pop();
        }
        d
    }
    fn s(d: &[u8]) -> String {
        d.iter().rev().map(|x| (b'0' + x) as char).collect()
    }
    if signed {
        let p = pow2(bits - 1);
        (format!("-{}", s(&p)), s(&minus_one(p)))
    } else {
        ("0".to_string(), s(&minus_one(pow2(bits))))
    }
}

fn exact_decimal(f: f64) -> String {
    // Rust prints the exact binary value when asked for enough digits.
    format!("{:.1100}", f)
}

pub fn to_f32_ref(d: &Doc) -> f32 {
    match d {
        Doc::Int(u) => u.to_string().parse::<f32>().unwrap(),
        Doc::Neg(i) => i.to_string().parse::<f32>().unwrap(),
        Doc::Float(f) if f.is_finite() => exact_decimal(*f).parse::<f32>().unwrap(),
        Doc::Float(f) => {
            if f.is_nan() {
                f32::NAN
            } else if *f > 0.0 {
                f32::INFINITY
            } else {
                f32::NEG_INFINITY
            }
        }
        _ => unreachable!(),
    }
}

pub fn to_f64_ref(d: &Doc) -> f64 {
    match d {
        Doc::Int(u) => u.to_string().parse::<f64>().unwrap(),
        Doc::Neg(i) => i.to_string().parse::<f64>().unwrap(),
        Doc::Float(f) => *f,
        _ => unreachable!(),
    }
}

pub fn scalar_expect(sc: Scalar, d: &Doc) -> ScalarExpect {
    use Scalar::*;
    let adm = admissible(sc);
    if !adm.contains(&d.kind()) {
        return ScalarExpect::WrongKind(adm);
    }
    match sc {
        Unit => ScalarExpect::Ok(Doc::Null),
        Bool | Str => ScalarExpect::Ok(d.clone()),
        Char => {
            let Doc::Str(s) = d else { unreachable!() };
            let n = s.chars().count();
            match n {
                0 => ScalarExpect::Domain(Domain::CharEmpty),
                1 => ScalarExpect::Ok(d.clone()),
                _ => ScalarExpect::Domain(Domain::CharLen { string: s.clone(), count: n }),
            }
        }
        F32 => ScalarExpect::Ok(Doc::Float(to_f32_ref(d) as f64)),
        F64 => ScalarExpect::Ok(Doc::Float(to_f64_ref(d))),
        s => {
            let (signed, bits, nonzero) = s.int_shape().unwrap();
            let v: i128 = match d {
                Doc::Int(u) => *u as i128,
                Doc::Neg(i) => *i as i128,
                _ => unreachable!(),
            };
            if nonzero && v == 0 {
                return ScalarExpect::Domain(Domain::Zero);
            }
            let (min_s, max_s) = int_bounds(signed, bits);
            // payload integers always fit i128; 128-bit targets hold them all
            if bits < 128 {
                let max: i128 = max_s.parse().unwrap();
                let min: i128 = min_s.parse().unwrap();
                if v > max {
                    return ScalarExpect::Domain(Domain::TooLarge { received: v.to_string(), bound: max_s });
                }
                if v < min {
                    return ScalarExpect::Domain(Domain::TooSmall { received: v.to_string(), bound: min_s });
                }
            }
            ScalarExpect::Ok(d.clone())
        }
    }
}

/// Numeric tokens (optionally signed digit runs) of a message.
pub fn numeric_tokens(msg: &str) -> Vec<String> {
    let b = msg.as_bytes();
    let mut out = vec![];
    let mut i = 0;
    while i < b.len() {
        if b[i].is_ascii_digit() {
            let start = if i > 0 && b[i - 1] == b'-' { i - 1 } else { i };
            let mut j = i;
            while j < b.len() && b[j].is_ascii_digit() {
                j += 1;
            }
            out.push(msg[start..j].to_string());
            i = j;
        } else {
            i += 1;
        }
    }
    out
}

/// Whether a domain-error message identifies what was received and the violated
/// bound, as C05 requires.
pub fn domain_message_ok(dom: &Domain, msg: &str) -> bool {
    let toks = numeric_tokens(msg);
    match dom {
        Domain::TooLarge { received, bound } | Domain::TooSmall { received, bound } => {
            toks.contains(received) && toks.contains(bound)
        }
        Domain::Zero => {
            // it must say that a zero was received where none is allowed: either the word
            // "zero" outside "non-zero", or the number 0 together with the non-zero constraint
            // ("0 is too small, minimum -128" names neither)
            let lower = msg.to_lowercase();
            let constraint = lower.contains("non-zero") || lower.contains("nonzero") || lower.contains("non zero") || lower.contains("not zero");
            let m = lower.replace("non-zero", "").replace("nonzero", "").replace("non zero", "").replace("not zero", "");
            m.contains("zero") || (constraint && toks.iter().any(|t| t == "0"))
        }
        Domain::CharEmpty => msg.to_lowercase().contains("empty"),
        Domain::CharLen { string, count } => msg.contains(string.as_str()) && toks.contains(&count.to_string()),
    }
}
