//! C12: documents nested as deep as serde_json accepts when parsing text
//! (128), into the recursive catalogue types and `serde_json::Value`, run in a
//! child process so that a stack overflow (abort, not unwind) is attributed to
//! its input instead of killing the checker.

use crate::doc::*;
use crate::engine::Engine;
use crate::entry::*;
use crate::evidence::*;
use crate::explore::*;
use crate::rec::*;
use serde_json::json;

/// (case name, note of the catalogue root, JSON text)
/// Deepest nesting of `build(levels)` that serde_json still parses.
fn deepest(build: &dyn Fn(usize) -> String) -> String {
    let mut levels = 130;
    loop {
        let t = build(levels);
        if serde_json::from_str::<serde_json::Value>(&t).is_ok() {
            return t;
        }
        levels -= 1;
        assert!(levels > 10, "no parseable depth found");
    }
}

/// (case name, note of the catalogue root, JSON text)
pub fn deep_cases() -> Vec<(String, &'static str, String)> {
    let mut out = vec![];
    let r1 = "recursive struct (Option<Box<Self>>)";
    let r2 = "recursive tagged enum (Vec<Self>)";
    let jv = "serde_json::Value as a target";
    for (leaf_name, leaf) in [("valid", "null"), ("wrong-kind", "\"x\""), ("object", "{\"zz\":1}")] {
        // R1: {"v":1,"next":{...}} — one level of nesting per object
        out.push((
            format!("r1-{leaf_name}"),
            r1,
            deepest(&|levels| {
                let mut t = String::new();
                for _ in 0..levels {
                    t.push_str("{\"v\":1,\"next\":");
                }
                t.push_str(&format!("{{\"v\":2,\"next\":{leaf}}}"));
                for _ in 0..levels {
                    t.push('}');
                }
                t
            }),
        ));
        // R2: {"t":"Node","kids":[{...}]} — two levels per node
        out.push((
            format!("r2-{leaf_name}"),
            r2,
            deepest(&|levels| {
                let mut t = String::new();
                for _ in 0..levels {
                    t.push_str("{\"t\":\"Node\",\"kids\":[");
                }
                t.push_str(&match leaf {
                    "null" => "{\"t\":\"Leaf\"}".to_string(),
                    other => format!("{{\"t\":\"Node\",\"kids\":{other}}}"),
                });
                for _ in 0..levels {
                    t.push_str("]}");
                }
                t
            }),
        ));
        // Value: [[[[…]]]] and {"a":{"a":…}}
        out.push((
            format!("value-array-{leaf_name}"),
            jv,
            deepest(&|levels| format!("{}{leaf}{}", "[".repeat(levels), "]".repeat(levels))),
        ));
        out.push((
            format!("value-object-{leaf_name}"),
            jv,
            deepest(&|levels| format!("{}{leaf}{}", "{\"a\":".repeat(levels), "}".repeat(levels))),
        ));
    }
    // faults at every level of R1 (every level lacks "v")
    out.push((
        "r1-missing-at-every-level".into(),
        r1,
        deepest(&|levels| format!("{}null{}", "{\"next\":".repeat(levels), "}".repeat(levels))),
    ));
    out
}

/// Runs one deep case in this process (called in the child). Prints a summary.
pub fn child(e: &Engine, name: &str) -> i32 {
    let Some((_, note, text)) = deep_cases().into_iter().find(|c| c.0 == name) else {
        eprintln!("unknown deep case {name}");
        return 2;
    };
    let Some(ri) = e.cat.roots.iter().position(|r| r.note == note) else {
        eprintln!("no catalogue root {note}");
        return 2;
    };
    let v: serde_json::Value = match serde_json::from_str(&text) {
        Ok(v) => v,
        Err(err) => {
            eprintln!("serde_json rejects the document ({err}) — not a payload");
            return 3;
        }
    };
    let doc = Doc::from_json(&v);
    silence_panics();
    let entry = &e.entries[ri];
    let mut execs = 0usize;
    let mut panics = 0usize;
    for src in [Src::Json, Src::Ov] {
        let run = |s: &Script| execute(entry, src, &doc, s);
        let st = explore_scripts(&run, 256, 1, &mut |_, o| {
            if o.panicked.is_some() {
                panics += 1;
            }
        });
        execs += st.executions;
    }
    // forget the deep value instead of dropping it recursively in case drop is the deep part
    std::mem::forget(v);
    println!("DEEP-OK case={name} depth={} executions={execs} panics={panics}", doc.depth());
    if panics > 0 {
        1
    } else {
        0
    }
}

pub fn run_deep(e: &Engine, rec: &Recorder) {
    let exe = std::env::current_exe().expect("current exe");
    let mut ran = 0u64;
    let mut total_exec = 0u64;
    for (name, note, text) in deep_cases() {
        let out = std::process::Command::new(&exe)
            .arg("deep-child")
            .arg(&name)
            .env("VERIF_THREADS", "1")
            .output()
            .expect("spawn child");
        let stdout = String::from_utf8_lossy(&out.stdout).to_string();
        let code = out.status.code();
        ran += 1;
        if code == Some(3) || code == Some(2) {
            // serde_json itself rejects it / machinery: not a payload, not a verdict
            rec.cap_hit(format!("deep case {name} not run: {}", String::from_utf8_lossy(&out.stderr).trim()));
            continue;
        }
        if let Some(l) = stdout.lines().find(|l| l.starts_with("DEEP-OK")) {
            if let Some(x) = l.split("executions=").nth(1).and_then(|s| s.split(' ').next()).and_then(|s| s.parse::<u64>().ok()) {
                total_exec += x;
            }
        }
        if code != Some(0) {
            rec.violation(Violation {
                property: "C12".into(),
                subject: format!("{note} at nesting depth 128"),
                message: format!(
                    "deserialize did not return normally on a document serde_json accepts (child exit {:?}, signal = abort/stack overflow if None): case {name}\n  {}",
                    code,
                    String::from_utf8_lossy(&out.stderr).lines().last().unwrap_or("")
                ),
                replay: json!({"kind": "deep", "case": name, "text_len": text.len()}),
            });
        }
    }
    let _ = e;
    rec.add_counts(ran, ran, total_exec);
    rec.set_extra("depth_128_cases_run_in_child_processes", json!(ran));
}


/// C12 with the built-in error types: JsonError and QueryParamError are error
/// types too, and their message rendering (did-you-mean, value quoting) runs
/// inside `deserialize`. Every base payload of every catalogue type usable with
/// them, with a long non-ASCII unknown key at every object and long / awkward
/// strings at every string leaf, must return normally.
pub fn run_builtin_totality(e: &Engine, rec: &Recorder) {
    use crate::space::Gen;
    use mc_desc::emit::ty_str;
    let g = Gen::new(e.cat);
    let mut long_strings: Vec<String> = vec![];
    for len in [48usize, 64, 100, 128, 256] {
        for pre in 0..4 {
            for unit in ["é", "日", "😀"] {
                let mut s = "x".repeat(pre);
                while s.len() < len + 3 {
                    s.push_str(unit);
                }
                long_strings.push(s);
            }
        }
    }
    long_strings.push(match Gen::awkward_string() {
        Doc::Str(s) => s,
        _ => unreachable!(),
    });
    let mut states = 0u64;
    let mut execs = 0u64;
    for (ri, root) in e.cat.roots.iter().enumerate() {
        let entry = &e.entries[ri];
        let (Some(rj), Some(rq)) = (entry.run_json, entry.run_query) else { continue };
        let mut payloads: Vec<(Src, Doc)> = vec![];
        for b in g.bases(&root.ty).into_iter().take(4) {
            // non-finite floats (only the second value source can present them) at every leaf in
            // turn and at all leaves at once: whatever is reported about them has to be rendered
            {
                fn leaves(d: &Doc, cur: &mut Loc, out: &mut Vec<Loc>) {
                    match d {
                        Doc::Obj(m) => {
                            for (k, v) in m {
                                cur.push(Step::Key(k.clone()));
                                leaves(v, cur, out);
                                cur.pop();
                            }
                        }
                        Doc::Seq(v) => {
                            for (i, x) in v.iter().enumerate() {
                                cur.push(Step::Index(i));
                                leaves(x, cur, out);
                                cur.pop();
                            }
                        }
                        _ => out.push(cur.clone()),
                    }
                }
                let mut ls = vec![];
                leaves(&b, &mut vec![], &mut ls);
                for nf in [f64::NAN, f64::INFINITY, f64::NEG_INFINITY] {
                    for l in ls.iter().take(24) {
                        let mut d = b.clone();
                        *d.resolve_mut(l).unwrap() = Doc::Float(nf);
                        payloads.push((Src::Ov, d));
                    }
                    let mut d = b.clone();
                    for l in &ls {
                        *d.resolve_mut(l).unwrap() = Doc::Float(nf);
                    }
                    payloads.push((Src::Ov, d));
                    payloads.push((Src::Ov, Doc::Seq(vec![Doc::Float(nf)])));
                    payloads.push((Src::Ov, Doc::Obj(vec![("zz".into(), Doc::Float(nf))])));
                }
            }
            // positions of objects and of string leaves
            fn walk(d: &Doc, cur: &mut Loc, objs: &mut Vec<Loc>, strs: &mut Vec<Loc>) {
                match d {
                    Doc::Obj(m) => {
                        objs.push(cur.clone());
                        for (k, v) in m {
                            cur.push(Step::Key(k.clone()));
                            walk(v, cur, objs, strs);
                            cur.pop();
                        }
                    }
                    Doc::Seq(v) => {
                        for (i, x) in v.iter().enumerate() {
                            cur.push(Step::Index(i));
                            walk(x, cur, objs, strs);
                            cur.pop();
                        }
                    }
                    Doc::Str(_) => strs.push(cur.clone()),
                    _ => {}
                }
            }
            let (mut objs, mut strs) = (vec![], vec![]);
            walk(&b, &mut vec![], &mut objs, &mut strs);
            for s in &long_strings {
                for o in objs.iter().take(3) {
                    let mut d = b.clone();
                    if let Some(Doc::Obj(m)) = d.resolve_mut(o) {
                        m.push((s.clone(), Doc::Int(1)));
                    }
                    payloads.push((Src::Json, d));
                }
                for l in strs.iter().take(3) {
                    let mut d = b.clone();
                    *d.resolve_mut(l).unwrap() = Doc::Str(s.clone());
                    payloads.push((Src::Json, d));
                }
                if objs.is_empty() && strs.is_empty() {
                    payloads.push((Src::Json, Doc::Str(s.clone())));
                }
            }
            payloads.push((Src::Json, b));
        }
        for (src, d) in payloads {
            states += 1;
            for (name, run) in [("JsonError", rj), ("QueryParamError", rq)] {
                execs += 1;
                crate::rec::begin(&Script::keep_going()); // "code under test is running" for the panic hook
                let panicked = std::panic::catch_unwind(|| run(src, &d)).is_err();
                let _ = crate::rec::end();
                if panicked {
                    rec.violation(Violation {
                        property: "C12".into(),
                        subject: format!("{} with {name}", ty_str(&root.ty, e.cat)),
                        message: format!("deserialize::<_, _, {name}> panicked\n  payload: {} (source {src:?})", d.text()),
                        replay: json!({"kind": "builtin-totality", "root": ri, "type": ty_str(&root.ty, e.cat), "error_type": name, "source": format!("{src:?}"), "payload": crate::evidence::doc_to_tagged(&d)}),
                    });
                    break;
                }
            }
        }
    }
    rec.add_counts(states, states, execs);
    rec.set_extra("payloads_run_with_JsonError_and_QueryParamError_(long_non_ascii_keys_and_strings,_non_finite_floats_at_every_leaf)", json!(states));
}
