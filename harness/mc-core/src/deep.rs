//! C12: documents nested as deep as serde_json accepts when parsing text
//! (128), into the recursive catalogue types and `serde_json::Value`, run in a
//! child process so that a stack overflow (abort, not unwind) is attributed to
//! its input instead of killing the checker.

use crate::doc::*;
use crate::engine::Engine;
use crate::entry::*;
use crate::evidence::*;
use crate::explore::*;
use crate::rec::*;
use serde_json::json;

/// (case name, note of the catalogue root, JSON text)
/// Deepest nesting of `build(levels)` that serde_json still parses.
fn deepest(build: &dyn Fn(usize) -> String) -> String {
    let mut levels = 130;
    loop {
        let t = build(levels);
        if serde_json::from_str::<serde_json::Value>(&t).is_ok() {
            return t;
        }
        levels -= 1;
        assert!(levels > 10, "no parseable depth found");
    }
}

/// (case name, note of the catalogue root, JSON text)
pub fn deep_cases() -> Vec<(String, &'static str, String)> {
    let mut out = vec![];
    let r1 = "recursive struct (Option<Box<Self>>)";
    let r2 = "recursive tagged enum (Vec<Self>)";
    let jv = "serde_json::Value as a target";
    for (leaf_name, leaf) in [("valid", "null"), ("wrong-kind", "\"x\""), ("object", "{\"zz\":1}")] {
        // R1: {"v":1,"next":{...}} — one level of nesting per object
        out.push((
            format!("r1-{leaf_name}"),
            r1,
            deepest(&|levels| {
                let mut t = String::new();
                for _ in 0..levels {
                    t.push_str("{\"v\":1,\"next\":");
                }
                t.push_str(&format!("{{\"v\":2,\"next\":{leaf}}}"));
                for _ in 0..levels {
                    t.push('}');
                }
                t
            }),
        ));
        // R2: {"t":"Node","kids":[{...}]} — two levels per node
        out.push((
            format!("r2-{leaf_name}"),
            r2,
            deepest(&|levels| {
                let mut t = String::new();
                for _ in 0..levels {
                    t.push_str("{\"t\":\"Node\",\"kids\":[");
                }
                t.push_str(&match leaf {
                    "null" => "{\"t\":\"Leaf\"}".to_string(),
                    other => format!("{{\"t\":\"Node\",\"kids\":{other}}}"),
                });
                for _ in 0..levels {
                    t.push_str("]}");
                }
                t
            }),
        ));
        // Value: [[[[…]]]] and {"a":{"a":…}}
        out.push((
            format!("value-array-{leaf_name}"),
            jv,
            deepest(&|levels| format!("{}{leaf}{}", "[".repeat(levels), "]".repeat(levels))),
        ));
        out.push((
            format!("value-object-{leaf_name}"),
            jv,
            deepest(&|levels| format!("{}{leaf}{}", "{\"a\":".repeat(levels), "}".repeat(levels))),
        ));
    }
    // faults at every level of R1 (every level lacks "v")
    out.push((
        "r1-missing-at-every-level".into(),
        r1,
        deepest(&|levels| format!("{}null{}", "{\"next\":".repeat(levels), "}".repeat(levels))),
    ));
    out
}

/// Runs one deep case in this process (called in the child). Prints a summary.
pub fn child(e: &Engine, name: &str) -> i32 {
    let Some((_, note, text)) = deep_cases().into_iter().find(|c| c.0 == name) else {
        eprintln!("unknown deep case {name}");
        return 2;
    };
    let Some(ri) = e.cat.roots.iter().position(|r| r.note == note) else {
        eprintln!("no catalogue root {note}");
        return 2;
    };
    let v: serde_json::Value = match serde_json::from_str(&text) {
        Ok(v) => v,
        Err(err) => {
            eprintln!("serde_json rejects the document ({err}) — not a payload");
            return 3;
        }
    };
    let doc = Doc::from_json(&v);
    silence_panics();
    let entry = &e.entries[ri];
    let mut execs = 0usize;
    let mut panics = 0usize;
    for src in [Src::Json, Src::Ov] {
        let run = |s: &Script| execute(entry, src, &doc, s);
        let st = explore_scripts(&run, 256, 1, &mut |_, o| {
            if o.panicked.is_some() {
                panics += 1;
            }
        });
        execs += st.executions;
    }
    // forget the deep value instead of dropping it recursively in case drop is the deep part
    std::mem::forget(v);
    println!("DEEP-OK case={name} depth={} executions={execs} panics={panics}", doc.depth());
    if panics > 0 {
        1
    } else {
        0
    }
}

pub fn run_deep(e: &Engine, rec: &Recorder) {
    let exe = std::env::current_exe().expect("current exe");
    let mut ran = 0u64;
    let mut total_exec = 0u64;
    for (name, note, text) in deep_cases() {
        let out = std::process::Command::new(&exe)
            .arg("deep-child")
            .arg(&name)
            .env("VERIF_THREADS", "1")
            .output()
            .expect("spawn child");
        let stdout = String::from_utf8_lossy(&out.stdout).to_string();
        let code = out.status.code();
        ran += 1;
        if code == Some(3) || code == Some(2) {
            // serde_json itself rejects it / machinery: not a payload, not a verdict
            rec.cap_hit(format!("deep case {name} not run: {}", String::from_utf8_lossy(&out.stderr).trim()));
            continue;
        }
        if let Some(l) = stdout.lines().find(|l| l.starts_with("DEEP-OK")) {
            if let Some(x) = l.split("executions=").nth(1).and_then(|s| s.split(' ').next()).and_then(|s| s.parse::<u64>().ok()) {
                total_exec += x;
            }
        }
        if code != Some(0) {
            rec.violation(Violation {
                property: "C12".into(),
                subject: format!("{note} at nesting depth 128"),
                message: format!(
                    "deserialize did not return normally on a document serde_json accepts (child exit {:?}, signal = abort/stack overflow if None): case {name}\n  {}",
                    code,
                    String::from_utf8_lossy(&out.stderr).lines().last().unwrap_or("")
                ),
                replay: json!({"kind": "deep", "case": name, "text_len": text.len()}),
            });
        }
    }
    let _ = e;
    rec.add_counts(ran, ran, total_exec);
    rec.set_extra("depth_128_cases_run_in_child_processes", json!(ran));
}
