//! C12: documents nested to depth 128 (stub, filled in below).
use crate::engine::Engine;
use crate::evidence::Recorder;

pub fn run_deep(_e: &Engine, _rec: &Recorder) {}
