//! C10, variant names as a *language*: an enum read from a string (or from a tag) accepts exactly
//! its variant names.  Every string over a small alphabet up to a length bound is given to a wide
//! unit-only enum and, as the tag value, to a wide tagged enum; the call must succeed iff the
//! string is one of the names (and then select that variant).  A dispatch that compares less than
//! the whole string (a hash, a prefix, a length) accepts some other short string.

use crate::doc::*;
use crate::engine::*;
use crate::entry::*;
use crate::evidence::*;
use crate::explore::*;
use crate::rec::*;
use crate::reference::variant_name;
use mc_desc::emit::ty_str;
#[allow(unused_imports)]
use std::sync::atomic::AtomicBool;
use mc_desc::{Item, Ty};
use serde_json::json;
use std::sync::atomic::{AtomicU64, AtomicUsize, Ordering};

const ALPHABET: &[u8] = b"abcdefghijklmnopqrstuvwxyz0123456789";

static WIDE_PROBE: std::sync::OnceLock<fn(&str) -> Option<usize>> = std::sync::OnceLock::new();

pub fn wide_probe() -> Option<fn(&str) -> Option<usize>> {
    WIDE_PROBE.get().copied()
}

/// Registered by the binaries: the probe of the generated 4096-variant enum.
pub fn set_wide_probe(f: fn(&str) -> Option<usize>) {
    let _ = WIDE_PROBE.set(f);
}

/// Every string over [a-z0-9] of length ≤ 4 (thorough ≤ 5), and of length 5 (6) starting with
/// a..f, into the 4096-variant enum: selected variant = index of the string in the name list, or
/// refused. With 4096 names even a 32-bit digest of the name collides with one of ~10^7 strings.
fn run_wide(e: &Engine, rec: &Recorder) {
    let Some(probe) = WIDE_PROBE.get().copied() else {
        rec.machinery_error("the wide-names probe was not registered".into());
        return;
    };
    let names = mc_desc::emit::wide_names();
    let index: std::collections::HashMap<&str, usize> = names.iter().enumerate().map(|(i, n)| (n.as_str(), i)).collect();
    let full_len = if e.tier == Tier::Quick { 4 } else { 5 };
    let next = AtomicUsize::new(0);
    let count = AtomicU64::new(0);
    let units = ALPHABET.len() * ALPHABET.len();
    std::thread::scope(|s| {
        for _ in 0..e.threads {
            s.spawn(|| {
                silence_panics();
                loop {
                    let u = next.fetch_add(1, Ordering::SeqCst);
                    if u >= units || rec.violation_count() > 20 {
                        break;
                    }
                    let prefix = [ALPHABET[u / ALPHABET.len()], ALPHABET[u % ALPHABET.len()]];
                    // strings starting with a..f go one character further
                    let max_len = if prefix[0] <= b'f' { full_len + 1 } else { full_len };
                    let mut n = 0u64;
                    let mut buf: Vec<u8> = prefix.to_vec();
                    fn fill(buf: &mut Vec<u8>, max_len: usize, f: &mut dyn FnMut(&str)) {
                        f(std::str::from_utf8(buf).unwrap());
                        if buf.len() == max_len {
                            return;
                        }
                        for &c in ALPHABET {
                            buf.push(c);
                            fill(buf, max_len, f);
                            buf.pop();
                        }
                    }
                    fill(&mut buf, max_len, &mut |t| {
                        n += 1;
                        begin(&Script::keep_going());
                        let got = std::panic::catch_unwind(|| probe(t));
                        let _ = end();
                        let want = index.get(t).copied();
                        let bad = match got {
                            Err(_) => Some("panics".to_string()),
                            Ok(g) if g != want => Some(format!("selects variant #{g:?}, expected #{want:?}")),
                            _ => None,
                        };
                        if let Some(m) = bad {
                            rec.violation(Violation {
                                property: "C10".into(),
                                subject: "WideNames (4096 unit variants) [names as a language]".into(),
                                message: format!("the string {t:?} {m}"),
                                replay: json!({"kind": "wide-names", "text": t}),
                            });
                        }
                    });
                    count.fetch_add(n, Ordering::Relaxed);
                }
            });
        }
    });
    let n = count.load(Ordering::Relaxed);
    rec.add_counts(n, n, n);
    rec.set_extra("names_as_a_language_4096_variants", json!({"alphabet": "a-z0-9", "complete_up_to_length": full_len, "plus_length": full_len + 1, "for_first_letter": "a-f", "strings": n}));
}

pub fn run_name_sweep(e: &Engine, rec: &Recorder) {
    run_wide(e, rec);
    let (len_unit, len_tag) = if e.tier == Tier::Quick { (4usize, 3usize) } else { (5, 4) };
    let mut total = 0u64;
    for (ri, root) in e.cat.roots.iter().enumerate() {
        let Ty::P(inner) = &root.ty else { continue };
        let Ty::Item(ii) = &**inner else { continue };
        let Item::Enum(en) = &e.cat.items[*ii] else { continue };
        // the two wide enums of group C
        let wide_unit = en.tag.is_none() && en.variants.len() >= 40;
        let wide_tagged = en.tag.is_some() && en.variants.len() >= 20;
        if !(wide_unit || wide_tagged) {
            continue;
        }
        let names: Vec<(String, String)> = en.variants.iter().map(|v| (variant_name(v, en.rename_all), v.ident.clone())).collect();
        let max_len = if wide_unit { len_unit } else { len_tag };
        let entry = &e.entries[ri];
        let tag = en.tag.clone();
        let tystr = ty_str(&root.ty, e.cat);
        let next = AtomicUsize::new(0);
        let count = AtomicU64::new(0);
        // work units: the first two characters (and the strings shorter than two)
        let units = ALPHABET.len() * ALPHABET.len() + 1;
        std::thread::scope(|s| {
            for _ in 0..e.threads {
                s.spawn(|| {
                    silence_panics();
                    let check = |text: &str| {
                        let doc = match &tag {
                            None => Doc::Str(text.to_string()),
                            Some(t) => Doc::Obj(vec![(t.clone(), Doc::Str(text.to_string()))]),
                        };
                        let out = execute(entry, Src::Json, &doc, &Script::keep_going());
                        let expected = names.iter().find(|(n, _)| n == text);
                        let bad = match (&out.result, expected) {
                            _ if out.panicked.is_some() => Some("panicked".to_string()),
                            (Ok(v), Some((_, ident))) => {
                                let got = v.get("$variant").and_then(|d| if let Doc::Str(s) = d { Some(s.clone()) } else { None });
                                if got.as_deref() == Some(ident.as_str()) {
                                    None
                                } else {
                                    Some(format!("selects {got:?}, expected variant {ident}"))
                                }
                            }
                            (Ok(v), None) => Some(format!("is accepted (as {}) although it names no variant", v.text())),
                            // a unit variant of the tagged enum may still fail on other grounds; the
                            // wide tagged enum's variants need their field, so Err is right for any name
                            (Err(_), Some(_)) if tag.is_none() => Some("names a variant but is refused".to_string()),
                            _ => None,
                        };
                        if let Some(m) = bad {
                            rec.violation(Violation {
                                property: "C10".into(),
                                subject: format!("{tystr} [names as a language]"),
                                message: format!("the string {text:?} {m}\n  payload: {}", doc.text()),
                                replay: json!({"kind": "catalogue", "root": ri, "type": tystr, "source": "Json", "script": "C*", "payload": doc_to_tagged(&doc)}),
                            });
                        }
                    };
                    loop {
                        let u = next.fetch_add(1, Ordering::SeqCst);
                        if u >= units || rec.violation_count() > 20 {
                            break;
                        }
                        let mut n = 0u64;
                        if u == units - 1 {
                            // the empty string and the one-character strings
                            check("");
                            n += 1;
                            for &c in ALPHABET {
                                check(std::str::from_utf8(&[c]).unwrap());
                                n += 1;
                            }
                        } else {
                            let prefix = [ALPHABET[u / ALPHABET.len()], ALPHABET[u % ALPHABET.len()]];
                            // all strings starting with this prefix, of length 2..=max_len
                            let mut buf: Vec<u8> = prefix.to_vec();
                            fn rec_fill(buf: &mut Vec<u8>, max_len: usize, f: &mut dyn FnMut(&str)) {
                                f(std::str::from_utf8(buf).unwrap());
                                if buf.len() == max_len {
                                    return;
                                }
                                for &c in ALPHABET {
                                    buf.push(c);
                                    rec_fill(buf, max_len, f);
                                    buf.pop();
                                }
                            }
                            if max_len >= 2 {
                                rec_fill(&mut buf, max_len, &mut |t| {
                                    check(t);
                                    n += 1;
                                });
                            }
                        }
                        count.fetch_add(n, Ordering::Relaxed);
                    }
                });
            }
        });
        let n = count.load(Ordering::Relaxed);
        total += n;
        rec.set_extra(
            if wide_unit { "names_as_a_language_unit_enum" } else { "names_as_a_language_tagged_enum" },
            json!({"type": tystr, "alphabet": "a-z0-9", "max_length": max_len, "strings": n, "names": names.len()}),
        );
    }
    rec.add_counts(total, total, total);
}
