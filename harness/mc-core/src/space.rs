//! Payload spaces (DESIGN.md §3.4): (a) the fault-injection closure of valid
//! payloads, explored breadth-first with state hashing, and (b) all small
//! documents over the type's key universe.

use crate::doc::*;
use crate::reference::{apply_rename_all, camel, field_key, variant_name};
use mc_desc::*;
use std::collections::HashSet;

pub struct Gen<'a> {
    pub cat: &'a Catalogue,
    /// recursion limit for self-referential items
    pub max_item_depth: usize,
}

struct BaseCtx {
    set: usize,
    ctr: u64,
    variant: usize,
    /// omit defaulted fields, null the optional ones
    sparse: bool,
}

impl BaseCtx {
    fn next(&mut self) -> u64 {
        self.ctr += 1;
        self.ctr
    }
}

impl<'a> Gen<'a> {
    pub fn new(cat: &'a Catalogue) -> Self {
        Gen { cat, max_item_depth: 2 }
    }

    fn scalar_value(&self, sc: Scalar, cx: &mut BaseCtx) -> Doc {
        let n = cx.next();
        use Scalar::*;
        match sc {
            Unit => Doc::Null,
            Bool => Doc::Bool(n % 2 == 1),
            Char => Doc::Str(["a", "b", "c", "d"][(n % 4) as usize].to_string()),
            Str => Doc::Str(format!("s{n}")),
            F32 | F64 => Doc::Float(n as f64 + 0.5),
            I8 | I16 | I32 | I64 | I128 | Isize | NzI8 | NzI16 | NzI32 | NzI64 | NzI128 | NzIsize => {
                if n % 2 == 0 {
                    Doc::Neg(-(n as i64) - 1)
                } else {
                    Doc::Int(n + 1)
                }
            }
            // distinct values at sibling positions; set 0 is all even (conversions succeed),
            // set 1 mixes parities
            _ => Doc::Int(if cx.set == 0 { (2 * n) % 250 } else { (10 * n + n % 2 + (n / 2) % 2) % 251 }),
        }
    }

    fn key_strings(k: KeyTy) -> [&'static str; 2] {
        match k {
            KeyTy::Str => ["ka", "kb"],
            KeyTy::U8 | KeyTy::Gen => ["1", "2"],
            KeyTy::I32 => ["-1", "7"],
            KeyTy::Bool => ["false", "true"],
            KeyTy::Char => ["x", "y"],
        }
    }

    fn valid(&self, ty: &Ty, cx: &mut BaseCtx, depth: usize) -> Doc {
        match ty {
            Ty::Sc(s) => self.scalar_value(*s, cx),
            Ty::Json => Doc::parse(r#"{"a":[1,-2,1.5,"s",null,true],"b":{}}"#),
            Ty::Phantom => Doc::s("marker"),
            Ty::P(t) | Ty::Bx(t) => self.valid(t, cx, depth),
            Ty::Opt(t) => {
                if cx.sparse || depth > self.max_item_depth {
                    Doc::Null
                } else {
                    self.valid(t, cx, depth)
                }
            }
            Ty::Vec(t) => {
                if depth > self.max_item_depth {
                    return Doc::Seq(vec![]);
                }
                let n = if cx.set == 0 { 2 } else { 1 };
                Doc::Seq((0..n).map(|_| self.valid(t, cx, depth)).collect())
            }
            Ty::HSet(t) | Ty::BSet(t) => {
                let a = self.valid(t, cx, depth);
                let b = self.valid(t, cx, depth);
                // a repeated element: sets collapse it
                if cx.set == 0 {
                    Doc::Seq(vec![a.clone(), b, a])
                } else {
                    Doc::Seq(vec![b, a])
                }
            }
            Ty::Arr(t, n) => Doc::Seq((0..*n).map(|_| self.valid(t, cx, depth)).collect()),
            Ty::Tup(ts) => Doc::Seq(ts.iter().map(|t| self.valid(t, cx, depth)).collect()),
            Ty::Map { key, val, .. } => {
                let ks = Self::key_strings(*key);
                let n = if cx.set == 0 { 2 } else { 1 };
                Doc::Obj((0..n).map(|i| (ks[i].to_string(), self.valid(val, cx, depth))).collect())
            }
            Ty::Cs(k) => match k {
                KeyTy::U8 => Doc::s(if cx.set == 0 { "1,2,3" } else { "7" }),
                _ => Doc::s(if cx.set == 0 { "a,bc" } else { "x" }),
            },
            Ty::Item(i) => self.valid_item(*i, cx, depth + 1),
        }
    }

    fn valid_fields(&self, fs: &[FieldSpec], ra: Option<RenameAll>, cx: &mut BaseCtx, depth: usize) -> Vec<(String, Doc)> {
        let mut out = vec![];
        for f in fs.iter().filter(|f| !f.skip) {
            if cx.sparse && f.has_default() {
                continue;
            }
            out.push((field_key(f, ra), self.valid(&f.ty, cx, depth)));
        }
        out
    }

    fn valid_item(&self, i: usize, cx: &mut BaseCtx, depth: usize) -> Doc {
        match &self.cat.items[i] {
            Item::Struct(s) => Doc::Obj(self.valid_fields(&s.fields, s.rename_all, cx, depth)),
            Item::Enum(e) => {
                let vi = if depth > self.max_item_depth { 0 } else { cx.variant % e.variants.len() };
                let v = &e.variants[vi];
                let name = variant_name(v, e.rename_all);
                match &e.tag {
                    None => Doc::Str(name),
                    Some(tag) => {
                        let mut m = vec![(tag.clone(), Doc::Str(name))];
                        if let Some(fs) = &v.fields {
                            for (k, d) in self.valid_fields(fs, v.rename_all, cx, depth) {
                                if k != *tag {
                                    m.push((k, d));
                                }
                            }
                        }
                        Doc::Obj(m)
                    }
                }
            }
            Item::Conv(c) => self.valid(&c.via, cx, depth),
        }
    }

    fn max_variants(&self, ty: &Ty, seen: &mut Vec<usize>) -> usize {
        match ty {
            Ty::Sc(_) | Ty::Json | Ty::Phantom | Ty::Cs(_) => 1,
            Ty::P(t) | Ty::Opt(t) | Ty::Bx(t) | Ty::Vec(t) | Ty::HSet(t) | Ty::BSet(t) | Ty::Arr(t, _) => {
                self.max_variants(t, seen)
            }
            Ty::Tup(ts) => ts.iter().map(|t| self.max_variants(t, seen)).max().unwrap_or(1),
            Ty::Map { val, .. } => self.max_variants(val, seen),
            Ty::Item(i) => {
                if seen.contains(i) {
                    return 1;
                }
                seen.push(*i);
                match &self.cat.items[*i] {
                    Item::Struct(s) => s.fields.iter().map(|f| self.max_variants(&f.ty, seen)).max().unwrap_or(1),
                    Item::Enum(e) => e
                        .variants
                        .iter()
                        .flat_map(|v| v.fields.iter().flatten())
                        .map(|f| self.max_variants(&f.ty, seen))
                        .max()
                        .unwrap_or(1)
                        .max(e.variants.len()),
                    Item::Conv(c) => self.max_variants(&c.via, seen),
                }
            }
        }
    }

    /// Replaces every scalar leaf of a document (object keys stay): with `null`
    /// (tags and other strings stay) or with pairwise *distinct* strings, so that
    /// a report pointing at the wrong sibling quotes a value that is not there.
    fn saturate(d: &Doc, distinct_strings: bool, ctr: &mut usize) -> Doc {
        match d {
            Doc::Seq(v) => Doc::Seq(v.iter().map(|x| Self::saturate(x, distinct_strings, ctr)).collect()),
            Doc::Obj(m) => Doc::Obj(m.iter().map(|(k, x)| (k.clone(), Self::saturate(x, distinct_strings, ctr))).collect()),
            Doc::Str(_) if !distinct_strings => d.clone(),
            _ => {
                if distinct_strings {
                    *ctr += 1;
                    Doc::Str(format!("sat{ctr}"))
                } else {
                    Doc::Null
                }
            }
        }
    }

    /// Saturated payloads: every leaf of a base faulty at once (faults at *every*
    /// position of every container, whatever the fault bound).
    pub fn saturated(&self, ty: &Ty) -> Vec<Doc> {
        let mut out: Vec<Doc> = vec![];
        // the dense base of every variant choice × two fillers
        let nv = self.max_variants(ty, &mut vec![]);
        for variant in 0..nv {
            let mut cx = BaseCtx { set: 0, ctr: 0, variant, sparse: false };
            let b = self.valid(ty, &mut cx, 0);
            for distinct in [false, true] {
                let d = Self::saturate(&b, distinct, &mut 0);
                if !out.contains(&d) {
                    out.push(d);
                }
            }
        }
        out
    }

    /// A value no element type of the catalogue accepts at this position (`None`: the type accepts
    /// anything).
    fn alien(ty: &Ty) -> Option<Doc> {
        match ty {
            Ty::P(t) | Ty::Bx(t) | Ty::Opt(t) => Self::alien(t),
            Ty::Json | Ty::Phantom => None,
            Ty::Sc(Scalar::Bool) => Some(Doc::Neg(-7)),
            _ => Some(Doc::Bool(true)),
        }
    }

    /// Rewrites every list (Vec / set) of a valid document into six elements whose outcomes are
    /// fault, ok, fault, ok, ok, fault — a *sequence* of outcomes inside one container that the fault
    /// bound alone does not reach (lists of the bases have two elements).
    fn stripe(&self, ty: &Ty, d: &Doc) -> Doc {
        match (ty, d) {
            (Ty::P(t) | Ty::Bx(t), _) => self.stripe(t, d),
            (Ty::Opt(t), d) if *d != Doc::Null => self.stripe(t, d),
            (Ty::Vec(t) | Ty::HSet(t) | Ty::BSet(t), Doc::Seq(v)) => match (Self::alien(t), v.first()) {
                (Some(bad), Some(first)) => {
                    let good = self.stripe(t, first);
                    Doc::Seq(vec![bad.clone(), good.clone(), bad.clone(), v.last().map(|l| self.stripe(t, l)).unwrap_or_else(|| good.clone()), good, bad])
                }
                _ => d.clone(),
            },
            (Ty::Arr(t, _), Doc::Seq(v)) => Doc::Seq(v.iter().map(|x| self.stripe(t, x)).collect()),
            (Ty::Tup(ts), Doc::Seq(v)) => Doc::Seq(v.iter().zip(ts).map(|(x, t)| self.stripe(t, x)).collect()),
            (Ty::Map { val, .. }, Doc::Obj(m)) => Doc::Obj(m.iter().map(|(k, x)| (k.clone(), self.stripe(val, x))).collect()),
            (Ty::Item(i), _) => match (&self.cat.items[*i], d) {
                (Item::Struct(s), Doc::Obj(m)) => Doc::Obj(
                    m.iter()
                        .map(|(k, x)| match s.fields.iter().find(|f| !f.skip && field_key(f, s.rename_all) == *k) {
                            Some(f) => (k.clone(), self.stripe(&f.ty, x)),
                            None => (k.clone(), x.clone()),
                        })
                        .collect(),
                ),
                (Item::Conv(c), _) => self.stripe(&c.via, d),
                _ => d.clone(),
            },
            _ => d.clone(),
        }
    }

    /// Striped payloads of the first dense base (see `stripe`).
    pub fn striped(&self, ty: &Ty) -> Vec<Doc> {
        let mut cx = BaseCtx { set: 0, ctr: 0, variant: 0, sparse: false };
        let b = self.valid(ty, &mut cx, 0);
        let s = self.stripe(ty, &b);
        if s == b {
            vec![]
        } else {
            vec![s]
        }
    }

    /// Base payloads: one per variant choice × two leaf-value sets × dense/sparse.
    pub fn bases(&self, ty: &Ty) -> Vec<Doc> {
        let nv = self.max_variants(ty, &mut vec![]);
        let mut out: Vec<Doc> = vec![];
        for variant in 0..nv {
            for set in 0..2 {
                for sparse in [false, true] {
                    let mut cx = BaseCtx { set, ctr: 0, variant, sparse };
                    let d = self.valid(ty, &mut cx, 0);
                    if !out.contains(&d) {
                        out.push(d);
                    }
                }
            }
        }
        out
    }

    // ------------------------------------------------------------------------------------
    // fault alphabet
    // ------------------------------------------------------------------------------------

    /// Key universe of a set of named fields (DESIGN.md §3.4).
    pub fn key_universe(&self, fs: &[FieldSpec], ra: Option<RenameAll>, tag: Option<&str>, rich: bool) -> Vec<String> {
        let mut u: Vec<String> = vec![];
        let mut add = |s: String| {
            if !u.contains(&s) {
                u.push(s)
            }
        };
        for f in fs {
            let eff = field_key(f, ra);
            add(eff.clone());
            add(f.ident.clone());
            add(camel(&f.ident));
            add(f.ident.to_lowercase());
            if let Some(r) = &f.rename {
                add(r.clone());
            }
            if let Some(r) = &f.serde_rename {
                add(r.clone());
            }
            // near-misses of the effective key
            add(format!("{eff}x"));
            add(format!("_{eff}"));
            add(format!(" {eff}"));
            if rich {
                add(format!("{eff} "));
                add(flip_case(&eff));
                add(eff.to_uppercase());
                if eff.chars().count() > 1 {
                    let mut t = eff.clone();
                    t.pop();
                    add(t);
                }
            }
        }
        if let Some(t) = tag {
            add(t.to_string());
        }
        add("zz".to_string());
        // the empty member name: sorts first in a sorted source, sits anywhere in an ordered one
        add(String::new());
        // names that mean something to other tools (schema annotations, positions)
        add("$schema".to_string());
        if rich {
            add("0".to_string());
            add("@id".to_string());
            add("__proto__".to_string());
        }
        let _ = apply_rename_all;
        u
    }

    /// A string with characters on which Rust's `Debug` escaping and JSON escaping differ
    /// (control characters, DEL, zero-width joiner) — it has to be quoted as JSON text.
    pub fn awkward_string() -> Doc {
        Doc::Str("nul\u{0}esc\u{1b}bs\u{8}del\u{7f}zwj\u{200d}q\"\\".to_string())
    }

    fn kind_reps() -> Vec<Doc> {
        vec![
            Doc::Null,
            Doc::Bool(true),
            Doc::Int(1),
            Doc::Neg(-1),
            Doc::Float(1.5),
            Doc::s("s"),
            Doc::Seq(vec![]),
            Doc::Obj(vec![]),
            // the empty string: a string like any other (not "nothing", not null)
            Doc::s(""),
        ]
    }

    fn scalar_faults(sc: Scalar) -> Vec<Doc> {
        use Scalar::*;
        let mut v: Vec<Doc> = Self::kind_reps();
        match sc {
            U8 => v.extend([
                Doc::Int(256),
                Doc::Int(3),
                Doc::Int(250),
                // values equal to the trait default and to the `default = expr` value of the library
                Doc::Int(0),
                Doc::Int(7),
                Self::awkward_string(),
                // strings that spell a number / nothing at all
                Doc::s("3"),
                Doc::s(""),
                // an offending *object* whose member names need JSON escaping when quoted
                Doc::Obj(vec![("the \"best\"".to_string(), Doc::Int(1)), ("c:\\temp\t".to_string(), Doc::Null)]),
            ]),
            I8 => v.extend([Doc::Int(128), Doc::Neg(-129), Doc::Neg(-128)]),
            NzU8 => v.extend([Doc::Int(0), Doc::Int(256), Doc::s("1")]),
            NzI8 => v.extend([Doc::Int(0), Doc::Int(128), Doc::Neg(-129)]),
            Char => v.extend([
                Doc::s(""),
                Doc::s("ab"),
                Doc::s("é"),
                // long strings whose multi-byte characters straddle every plausible truncation offset
                Doc::Str(format!("a{}", "é".repeat(40))),
                Doc::Str("é".repeat(40)),
                Doc::Str(format!("ab{}", "😀".repeat(70))),
            ]),
            U64 => v.extend([Doc::Int(u64::MAX)]),
            I64 => v.extend([Doc::Int(u64::MAX), Doc::Neg(i64::MIN)]),
            F32 => v.extend([Doc::Float(1e39), Doc::Int(u64::MAX)]),
            // (strings that spell a boolean are strings)
            Bool => v.extend([Doc::Bool(false), Self::awkward_string(), Doc::s("true"), Doc::s("false")]),
            Str => v.extend([Doc::s(""), Doc::Str(format!("a{}", "é".repeat(40)))]),
            _ => {}
        }
        v
    }

    /// All single-fault edits applicable to `doc` under `ty`.
    pub fn edits(&self, ty: &Ty, doc: &Doc, rich: bool) -> Vec<Edit> {
        let mut out = vec![];
        self.edits_at(ty, doc, &mut vec![], rich, 0, &mut out);
        out
    }

    fn replace_with_other_kinds(doc: &Doc, loc: &Loc, out: &mut Vec<Edit>) {
        for r in Self::kind_reps() {
            if r.kind() != doc.kind() {
                out.push(Edit { loc: loc.clone(), op: Op::Replace(r) });
            }
        }
    }

    fn edits_at(&self, ty: &Ty, doc: &Doc, loc: &mut Loc, rich: bool, depth: usize, out: &mut Vec<Edit>) {
        match ty {
            Ty::Sc(sc) => {
                for r in Self::scalar_faults(*sc) {
                    if r != *doc {
                        out.push(Edit { loc: loc.clone(), op: Op::Replace(r) });
                    }
                }
            }
            Ty::Json => {
                out.push(Edit { loc: loc.clone(), op: Op::Replace(Doc::Null) });
                out.push(Edit { loc: loc.clone(), op: Op::Replace(Doc::Seq(vec![Doc::Obj(vec![])])) });
            }
            // anything at all is accepted
            Ty::Phantom => Self::replace_with_other_kinds(doc, loc, out),
            Ty::P(t) | Ty::Bx(t) => self.edits_at(t, doc, loc, rich, depth, out),
            Ty::Opt(t) => {
                if *doc == Doc::Null {
                    // make it present
                    let mut cx = BaseCtx { set: 0, ctr: 40, variant: 0, sparse: false };
                    out.push(Edit { loc: loc.clone(), op: Op::Replace(self.valid(t, &mut cx, depth)) });
                } else {
                    self.edits_at(t, doc, loc, rich, depth, out)
                }
            }
            Ty::Vec(_) | Ty::HSet(_) | Ty::BSet(_) | Ty::Arr(_, _) | Ty::Tup(_) => {
                Self::replace_with_other_kinds(doc, loc, out);
                let Doc::Seq(v) = doc else { return };
                // element type at index i (tuples: per component; beyond the arity: the last one)
                let elem_ty = |i: usize| -> Option<&Ty> {
                    match ty {
                        Ty::Tup(ts) => ts.get(i).or(ts.last()),
                        Ty::Vec(t) | Ty::HSet(t) | Ty::BSet(t) | Ty::Arr(t, _) => Some(&**t),
                        _ => unreachable!(),
                    }
                };
                if !v.is_empty() {
                    out.push(Edit { loc: loc.clone(), op: Op::SeqDrop(v.len() - 1) });
                    if v.len() > 1 {
                        out.push(Edit { loc: loc.clone(), op: Op::SeqDrop(0) });
                    }
                    out.push(Edit { loc: loc.clone(), op: Op::SeqDup(0) });
                }
                if let Some(et) = elem_ty(v.len()) {
                    let mut cx = BaseCtx { set: 0, ctr: 50, variant: 0, sparse: false };
                    out.push(Edit { loc: loc.clone(), op: Op::SeqAppend(self.valid(et, &mut cx, depth)) });
                }
                out.push(Edit { loc: loc.clone(), op: Op::SeqAppend(Doc::Obj(vec![("zz".into(), Doc::Null)])) });
                for (i, e) in v.iter().enumerate() {
                    let within = match ty {
                        Ty::Tup(ts) => i < ts.len(),
                        Ty::Arr(_, n) => i < *n,
                        _ => true,
                    };
                    if !within {
                        continue;
                    }
                    if let Some(et) = elem_ty(i) {
                        loc.push(Step::Index(i));
                        self.edits_at(et, e, loc, rich, depth, out);
                        loc.pop();
                    }
                }
            }
            Ty::Map { key, val, .. } => {
                Self::replace_with_other_kinds(doc, loc, out);
                let Doc::Obj(m) = doc else { return };
                let mut cx = BaseCtx { set: 0, ctr: 60, variant: 0, sparse: false };
                let fresh = self.valid(val, &mut cx, depth);
                let extra: &[&str] = match key {
                    KeyTy::Str => &["", "kc"],
                    KeyTy::U8 | KeyTy::Gen => &["x", "01", "256", "-1", "+2", "", " 1", "2 ", "\t3", "007", "-0", "+0", "1e1", "0x1"],
                    KeyTy::I32 => &["x", "-01", "1.5", "2147483648", " 7", "-7\u{a0}", "+7", "-0", "007", "--1", "-2147483648", "-2147483649"],
                    KeyTy::Bool => &["True", "1", "", " true", "false ", "TRUE", "yes", "0"],
                    KeyTy::Char => &["xy", "", "é", " x", "y "],
                };
                for k in extra {
                    if !m.iter().any(|(k2, _)| k2 == k) {
                        out.push(Edit { loc: loc.clone(), op: Op::Insert(k.to_string(), fresh.clone()) });
                        out.push(Edit { loc: loc.clone(), op: Op::Insert(k.to_string(), Doc::Seq(vec![Doc::Null])) });
                    }
                }
                for (k, v) in m {
                    out.push(Edit { loc: loc.clone(), op: Op::Delete(k.clone()) });
                    loc.push(Step::Key(k.clone()));
                    self.edits_at(val, v, loc, rich, depth, out);
                    loc.pop();
                }
            }
            Ty::Cs(_) => {
                Self::replace_with_other_kinds(doc, loc, out);
                for s in ["", ",", "1,,2", "1,x", "300", "a", ",7,", " ", "1, ,3", "a, ,b", " 1", "2 ", "1,\t,2", ",,", "0,255,256"] {
                    out.push(Edit { loc: loc.clone(), op: Op::Replace(Doc::s(s)) });
                }
            }
            Ty::Item(i) => {
                if depth > self.max_item_depth + 1 {
                    return;
                }
                self.edits_item(*i, doc, loc, rich, depth + 1, out)
            }
        }
    }

    fn edits_fields(
        &self,
        fs: &[FieldSpec],
        ra: Option<RenameAll>,
        tag: Option<&str>,
        m: &[(String, Doc)],
        loc: &mut Loc,
        rich: bool,
        depth: usize,
        out: &mut Vec<Edit>,
    ) {
        for (k, v) in m {
            if Some(k.as_str()) == tag {
                continue;
            }
            out.push(Edit { loc: loc.clone(), op: Op::Delete(k.clone()) });
            if let Some(f) = fs.iter().find(|f| !f.skip && field_key(f, ra) == *k) {
                loc.push(Step::Key(k.clone()));
                self.edits_at(&f.ty, v, loc, rich, depth, out);
                loc.pop();
            }
        }
        for k in self.key_universe(fs, ra, None, rich) {
            if m.iter().any(|(k2, _)| *k2 == k) {
                continue;
            }
            // a member that would be valid for a u8 field, and an ill-typed one
            out.push(Edit { loc: loc.clone(), op: Op::Insert(k.clone(), Doc::Int(9)) });
            if rich || fs.iter().any(|f| field_key(f, ra) == k || f.ident == k) {
                out.push(Edit { loc: loc.clone(), op: Op::Insert(k.clone(), Doc::s("s")) });
            }
            // re-add a deleted field with a valid value of its own type
            if let Some(f) = fs.iter().find(|f| !f.skip && field_key(f, ra) == k) {
                let mut cx = BaseCtx { set: 0, ctr: 70, variant: 0, sparse: false };
                let d = self.valid(&f.ty, &mut cx, depth);
                if d != Doc::Int(9) {
                    out.push(Edit { loc: loc.clone(), op: Op::Insert(k.clone(), d) });
                }
            }
        }
    }

    fn edits_item(&self, i: usize, doc: &Doc, loc: &mut Loc, rich: bool, depth: usize, out: &mut Vec<Edit>) {
        match &self.cat.items[i] {
            Item::Struct(s) => {
                Self::replace_with_other_kinds(doc, loc, out);
                let Doc::Obj(m) = doc else { return };
                self.edits_fields(&s.fields, s.rename_all, None, m, loc, rich, depth, out);
            }
            Item::Enum(e) => {
                Self::replace_with_other_kinds(doc, loc, out);
                let names: Vec<String> = e.variants.iter().map(|v| variant_name(v, e.rename_all)).collect();
                let mut universe: Vec<String> = vec![];
                let mut add = |s: String| {
                    if !universe.contains(&s) {
                        universe.push(s)
                    }
                };
                for (v, n) in e.variants.iter().zip(&names) {
                    add(n.clone());
                    add(v.ident.clone());
                    add(camel(&v.ident));
                    add(v.ident.to_lowercase());
                    add(n.to_uppercase());
                    add(flip_case(n));
                    add(format!(" {n}"));
                    add(format!("{n} "));
                    add(format!("{n}x"));
                    // one inserted wide character: one edit, three bytes
                    add(format!("{n}日"));
                    if n.len() > 1 {
                        let mut t = n.clone();
                        t.pop();
                        add(t);
                    }
                }
                add(String::new());
                add("zz".to_string());
                match &e.tag {
                    None => {
                        for n in universe {
                            if Doc::Str(n.clone()) != *doc {
                                out.push(Edit { loc: loc.clone(), op: Op::Replace(Doc::Str(n)) });
                            }
                        }
                    }
                    Some(tag) => {
                        // a bare string that names a variant is still not an object
                        for n in names.iter().take(3) {
                            out.push(Edit { loc: loc.clone(), op: Op::Replace(Doc::Str(n.clone())) });
                        }
                        let Doc::Obj(m) = doc else { return };
                        match m.iter().find(|(k, _)| k == tag) {
                            None => {
                                for n in &names {
                                    out.push(Edit { loc: loc.clone(), op: Op::Insert(tag.clone(), Doc::Str(n.clone())) });
                                }
                            }
                            Some((_, tv)) => {
                                out.push(Edit { loc: loc.clone(), op: Op::Delete(tag.clone()) });
                                loc.push(Step::Key(tag.clone()));
                                for r in Self::kind_reps() {
                                    if r.kind() != Kind::String {
                                        out.push(Edit { loc: loc.clone(), op: Op::Replace(r) });
                                    }
                                }
                                for n in universe {
                                    if Doc::Str(n.clone()) != *tv {
                                        out.push(Edit { loc: loc.clone(), op: Op::Replace(Doc::Str(n)) });
                                    }
                                }
                                loc.pop();
                                // fields of the selected variant (if the tag names one)
                                if let Doc::Str(tvs) = tv {
                                    if let Some(ix) = names.iter().position(|n| n == tvs) {
                                        let v = &e.variants[ix];
                                        match &v.fields {
                                            Some(fs) => self.edits_fields(fs, v.rename_all, Some(tag), m, loc, rich, depth, out),
                                            None => {
                                                // extra members next to a unit variant
                                                out.push(Edit { loc: loc.clone(), op: Op::Insert("zz".into(), Doc::Int(9)) });
                                            }
                                        }
                                    }
                                }
                            }
                        }
                    }
                }
            }
            Item::Conv(c) => self.edits_at(&c.via, doc, loc, rich, depth, out),
        }
    }

    /// Breadth-first closure of the bases under ≤ `max_faults` edits.
    /// Returns the states (canonical documents) with their depth, and the number
    /// of transitions taken (including those that led to an already known state).
    pub fn closure(&self, ty: &Ty, max_faults: usize, rich: bool, state_cap: usize) -> Closure {
        let mut seen: HashSet<String> = HashSet::new();
        let mut states: Vec<(Doc, usize)> = vec![];
        let mut transitions = 0usize;
        let mut capped = false;
        for b in self.bases(ty) {
            let c = b.canonical();
            if seen.insert(c.text()) {
                states.push((c, 0));
            }
        }
        // very wide types (dozens of members): a second fault multiplies thousands of single-fault
        // states by thousands again — they get one fault, plus the saturated payloads
        let max_faults = if states.iter().any(|(d, _)| d.max_object_len() > 30) { max_faults.min(1) } else { max_faults };
        let mut frontier_start = 0;
        for depth in 1..=max_faults {
            let frontier_end = states.len();
            for si in frontier_start..frontier_end {
                let (doc, _) = states[si].clone();
                for e in self.edits(ty, &doc, rich) {
                    let Some(next) = e.apply(&doc) else { continue };
                    transitions += 1;
                    let c = next.canonical();
                    if seen.insert(c.text()) {
                        if states.len() >= state_cap {
                            capped = true;
                            break;
                        }
                        states.push((c, depth));
                    }
                }
                if capped {
                    break;
                }
            }
            frontier_start = frontier_end;
            if capped {
                break;
            }
        }
        // saturated payloads (every leaf faulty at once) and striped payloads (every list holds the
        // outcome sequence fault, ok, fault, ok, ok, fault) are states of their own, not expanded further
        for b in self.saturated(ty).into_iter().chain(self.striped(ty)) {
            let c = b.canonical();
            if seen.insert(c.text()) {
                states.push((c, 0));
            }
        }
        Closure { states, transitions, capped }
    }
}

pub struct Closure {
    pub states: Vec<(Doc, usize)>,
    pub transitions: usize,
    pub capped: bool,
}

fn flip_case(s: &str) -> String {
    let mut out = String::new();
    let mut done = false;
    for c in s.chars() {
        if !done && c.is_alphabetic() {
            if c.is_lowercase() {
                out.extend(c.to_uppercase());
            } else {
                out.extend(c.to_lowercase());
            }
            done = true;
        } else {
            out.push(c);
        }
    }
    out
}

#[derive(Clone, Debug, PartialEq)]
pub enum Op {
    Replace(Doc),
    Delete(String),
    Insert(String, Doc),
    SeqDrop(usize),
    SeqDup(usize),
    SeqAppend(Doc),
}

#[derive(Clone, Debug, PartialEq)]
pub struct Edit {
    pub loc: Loc,
    pub op: Op,
}

impl Edit {
    pub fn apply(&self, doc: &Doc) -> Option<Doc> {
        let mut d = doc.clone();
        {
            let target = d.resolve_mut(&self.loc)?;
            match &self.op {
                Op::Replace(r) => *target = r.clone(),
                Op::Delete(k) => {
                    let Doc::Obj(m) = target else { return None };
                    let i = m.iter().position(|(k2, _)| k2 == k)?;
                    m.remove(i);
                }
                Op::Insert(k, v) => {
                    let Doc::Obj(m) = target else { return None };
                    if m.iter().any(|(k2, _)| k2 == k) {
                        return None;
                    }
                    m.push((k.clone(), v.clone()));
                }
                Op::SeqDrop(i) => {
                    let Doc::Seq(v) = target else { return None };
                    if *i >= v.len() {
                        return None;
                    }
                    v.remove(*i);
                }
                Op::SeqDup(i) => {
                    let Doc::Seq(v) = target else { return None };
                    let e = v.get(*i)?.clone();
                    v.push(e);
                }
                Op::SeqAppend(e) => {
                    let Doc::Seq(v) = target else { return None };
                    v.push(e.clone());
                }
            }
        }
        Some(d)
    }
}

// ----------------------------------------------------------------------------------------
// (b) all small documents
// ----------------------------------------------------------------------------------------

/// All canonical documents with at most `max_nodes` nodes over the given keys
/// and leaves (`[]` and `{}` count as leaves of one node).
pub fn small_docs(max_nodes: usize, keys: &[String], leaves: &[Doc]) -> Vec<Doc> {
    // docs_by_size[n] = all documents with exactly n nodes
    let mut by_size: Vec<Vec<Doc>> = vec![vec![]; max_nodes + 1];
    if max_nodes == 0 {
        return vec![];
    }
    by_size[1] = leaves.to_vec();
    by_size[1].push(Doc::Seq(vec![]));
    by_size[1].push(Doc::Obj(vec![]));
    for n in 2..=max_nodes {
        let mut out = vec![];
        // sequences: ordered lists of children whose sizes sum to n-1
        let mut seqs: Vec<Vec<Doc>> = vec![];
        compose(n - 1, &by_size, &mut vec![], &mut seqs);
        for s in &seqs {
            out.push(Doc::Seq(s.clone()));
        }
        // objects: children attached to strictly increasing keys
        for s in &seqs {
            let mut combos: Vec<Vec<usize>> = vec![];
            choose(keys.len(), s.len(), 0, &mut vec![], &mut combos);
            for c in combos {
                out.push(Doc::Obj(c.iter().zip(s.iter()).map(|(ki, d)| (keys[*ki].clone(), d.clone())).collect()));
            }
        }
        by_size[n] = out;
    }
    let mut sorted_keys = keys.to_vec();
    sorted_keys.sort();
    debug_assert!(sorted_keys.windows(2).all(|w| w[0] != w[1]));
    by_size.into_iter().flatten().map(|d| d.canonical()).collect()
}

fn compose(total: usize, by_size: &[Vec<Doc>], cur: &mut Vec<Doc>, out: &mut Vec<Vec<Doc>>) {
    if total == 0 {
        if !cur.is_empty() {
            out.push(cur.clone());
        }
        return;
    }
    for sz in 1..=total {
        for d in &by_size[sz] {
            cur.push(d.clone());
            compose(total - sz, by_size, cur, out);
            cur.pop();
        }
    }
}

fn choose(n: usize, k: usize, start: usize, cur: &mut Vec<usize>, out: &mut Vec<Vec<usize>>) {
    if cur.len() == k {
        out.push(cur.clone());
        return;
    }
    for i in start..n {
        cur.push(i);
        choose(n, k, i + 1, cur, out);
        cur.pop();
    }
}

impl<'a> Gen<'a> {
    /// Keys and leaves for the small-document space of a type.
    pub fn small_alphabet(&self, ty: &Ty) -> (Vec<String>, Vec<Doc>) {
        let mut keys: Vec<String> = vec![];
        let mut strings: Vec<String> = vec![];
        self.collect_alphabet(ty, &mut keys, &mut strings, &mut vec![]);
        for k in ["ka", "1", "zz"] {
            if keys.len() < 5 && !keys.iter().any(|x| x == k) {
                keys.push(k.to_string());
            }
        }
        keys.truncate(6);
        keys.sort();
        keys.dedup();
        let mut leaves =
            vec![Doc::Null, Doc::Bool(true), Doc::Int(1), Doc::Int(2), Doc::Neg(-1), Doc::Float(1.5), Doc::s("s"), Doc::Int(300)];
        for s in strings.into_iter().take(3) {
            leaves.push(Doc::Str(s));
        }
        (keys, leaves)
    }

    fn collect_alphabet(&self, ty: &Ty, keys: &mut Vec<String>, strings: &mut Vec<String>, seen: &mut Vec<usize>) {
        let mut addk = |keys: &mut Vec<String>, s: String| {
            if !keys.contains(&s) {
                keys.push(s)
            }
        };
        match ty {
            Ty::Sc(_) | Ty::Json | Ty::Phantom | Ty::Cs(_) => {}
            Ty::P(t) | Ty::Opt(t) | Ty::Bx(t) | Ty::Vec(t) | Ty::HSet(t) | Ty::BSet(t) | Ty::Arr(t, _) => {
                self.collect_alphabet(t, keys, strings, seen)
            }
            Ty::Tup(ts) => {
                for t in ts {
                    self.collect_alphabet(t, keys, strings, seen)
                }
            }
            Ty::Map { val, key, .. } => {
                addk(keys, Self::key_strings(*key)[0].to_string());
                self.collect_alphabet(val, keys, strings, seen)
            }
            Ty::Item(i) => {
                if seen.contains(i) {
                    return;
                }
                seen.push(*i);
                match &self.cat.items[*i] {
                    Item::Struct(s) => {
                        for f in s.fields.iter() {
                            addk(keys, field_key(f, s.rename_all));
                        }
                        for f in s.fields.iter() {
                            self.collect_alphabet(&f.ty, keys, strings, seen);
                        }
                    }
                    Item::Enum(e) => {
                        if let Some(t) = &e.tag {
                            addk(keys, t.clone());
                        }
                        for v in &e.variants {
                            let n = variant_name(v, e.rename_all);
                            if !strings.contains(&n) {
                                strings.push(n);
                            }
                        }
                        // struct-like variants first in the string alphabet so their fields get exercised
                        if let Some(v) = e.variants.iter().find(|v| v.fields.is_some()) {
                            let n = variant_name(v, e.rename_all);
                            strings.retain(|s| *s != n);
                            strings.insert(0, n);
                        }
                        for v in &e.variants {
                            for f in v.fields.iter().flatten() {
                                addk(keys, field_key(f, v.rename_all));
                                self.collect_alphabet(&f.ty, keys, strings, seen);
                            }
                        }
                    }
                    Item::Conv(c) => self.collect_alphabet(&c.via, keys, strings, seen),
                }
            }
        }
    }
}
