//! Self-relative oracles (DESIGN.md §4.1): accounting (C01), frame / suffix /
//! prefix rules (C03), location truthfulness (C04), totality (C12) — and the
//! comparison with the reference interpreter (C02, C06–C11).

use crate::doc::*;
use crate::explore::Outcome;
use crate::rec::*;
use crate::reference::*;

/// For each event: the stack of open probe frames (indices of their Enter
/// events) *while the event happens* (an Exit still sees its own frame).
pub struct Frames {
    pub stack_at: Vec<Vec<usize>>,
    pub balanced: bool,
}

pub fn frames(events: &[Event]) -> Frames {
    let mut stack: Vec<usize> = vec![];
    let mut stack_at = Vec::with_capacity(events.len());
    let mut balanced = true;
    for (i, e) in events.iter().enumerate() {
        match e {
            Event::Enter { .. } => {
                stack.push(i);
                stack_at.push(stack.clone());
            }
            Event::Exit { loc, .. } => {
                stack_at.push(stack.clone());
                match stack.pop() {
                    Some(j) => {
                        if events[j].loc() != Some(loc) {
                            balanced = false;
                        }
                    }
                    None => balanced = false,
                }
            }
            _ => stack_at.push(stack.clone()),
        }
    }
    Frames { stack_at, balanced }
}

fn has_dup(v: &[u32]) -> bool {
    let mut s = v.to_vec();
    s.sort();
    s.windows(2).any(|w| w[0] == w[1])
}

// ---------------------------------------------------------------------------------------
// C01 — no reported error is ever lost
// ---------------------------------------------------------------------------------------

pub fn check_c01(out: &Outcome) -> Result<(), String> {
    if out.panicked.is_some() {
        return Ok(()); // C12's business
    }
    let mut made: Vec<u32> = out.report_ids();
    made.sort();
    match &out.result {
        Ok(_) => {
            if !made.is_empty() {
                return Err(format!(
                    "returned Ok although {} report(s) were made (first: {:?})",
                    made.len(),
                    out.reports()[0]
                ));
            }
        }
        Err(ids) => {
            let mut got = ids.clone();
            got.sort();
            if got != made {
                let lost: Vec<u32> = made.iter().copied().filter(|i| !got.contains(i)).collect();
                let lost_ev: Vec<&Event> =
                    out.events.iter().filter(|e| e.report_id().map(|i| lost.contains(&i)).unwrap_or(false)).collect();
                return Err(format!(
                    "returned error holds reports {got:?} but reports {made:?} were made; lost: {lost_ev:?}"
                ));
            }
        }
    }
    for e in &out.events {
        match e {
            Event::HandOver { other_ids, self_ids, .. } => {
                if has_dup(other_ids) || has_dup(self_ids) || other_ids.iter().any(|i| self_ids.contains(i)) {
                    return Err(format!("a report is held twice at hand-over {e:?}"));
                }
            }
            Event::Report { self_ids, .. } | Event::Foreign { self_ids, .. } => {
                if has_dup(self_ids) {
                    return Err(format!("a report is held twice in the accumulator at {e:?}"));
                }
            }
            _ => {}
        }
    }
    Ok(())
}

// ---------------------------------------------------------------------------------------
// C12 — totality
// ---------------------------------------------------------------------------------------

pub fn check_c12(out: &Outcome) -> Result<(), String> {
    match &out.panicked {
        Some(m) => Err(format!("deserialize panicked: {m}")),
        None => Ok(()),
    }
}

// ---------------------------------------------------------------------------------------
// C03 — a stop answer ends the work
// ---------------------------------------------------------------------------------------

/// Frame rule: after a Break answer made in frame X nothing further happens in
/// X except hand-overs of the error just returned.
pub fn check_c03_frame(out: &Outcome) -> Result<(), String> {
    if out.panicked.is_some() {
        return Ok(());
    }
    let fr = frames(&out.events);
    if !fr.balanced {
        return Err("probe Enter/Exit events are not balanced".into());
    }
    // (depth of the frame that must return, ids of the error it returns, index of the stop event)
    let mut stop: Option<(usize, Vec<u32>, usize)> = None;
    for (i, e) in out.events.iter().enumerate() {
        let depth = fr.stack_at[i].len();
        if let Some((d, ids, at)) = &stop {
            match e {
                Event::Exit { .. } => {
                    if depth == *d {
                        stop = None;
                    }
                    // an Exit of a deeper frame cannot occur: no Enter is allowed while stopped
                    continue;
                }
                Event::HandOver { other_ids, self_ids, .. } if depth == *d => {
                    let held: Vec<u32> = self_ids.iter().chain(other_ids.iter()).copied().collect();
                    if ids.iter().all(|i| held.contains(i)) {
                        // passing the stopped error on; the frame is still returning
                        let at = *at;
                        stop = Some((depth, held, at));
                        continue;
                    }
                    return Err(format!(
                        "after the stop answer at event #{at} ({:?}) the same container made an unrelated hand-over {e:?}",
                        out.events[*at]
                    ));
                }
                _ => {
                    return Err(format!(
                        "after the stop answer at event #{at} ({:?}) the container did not return at once: next event #{i} {e:?}",
                        out.events[*at]
                    ));
                }
            }
        }
        if e.is_decision() && e.brk() {
            let ids: Vec<u32> = match e {
                Event::Report { id, self_ids, .. } | Event::Foreign { id, self_ids, .. } => {
                    self_ids.iter().copied().chain([*id]).collect()
                }
                Event::HandOver { other_ids, self_ids, .. } => self_ids.iter().chain(other_ids.iter()).copied().collect(),
                _ => unreachable!(),
            };
            stop = Some((depth, ids, i));
        }
    }
    Ok(())
}

/// Suffix rule: once every remaining answer is Break, no new report, visit or
/// user-function call happens; the remaining calls only pass the error up, and
/// the final error holds exactly what had been reported by then.
pub fn check_c03_suffix(out: &Outcome) -> Result<(), String> {
    if out.panicked.is_some() {
        return Ok(());
    }
    let answers = out.answers();
    if answers.is_empty() || !*answers.last().unwrap() {
        return Ok(());
    }
    let mut j = answers.len();
    while j > 0 && answers[j - 1] {
        j -= 1;
    }
    let pos = out.decision_pos(j).unwrap();
    for (i, e) in out.events.iter().enumerate().skip(pos + 1) {
        match e {
            Event::Exit { .. } | Event::HandOver { .. } => {}
            _ => {
                return Err(format!(
                    "after every answer became stop (from decision {j}, event #{pos}) new work was done: event #{i} {e:?}"
                ));
            }
        }
    }
    let mut upto: Vec<u32> = out.events[..=pos].iter().filter_map(|e| e.report_id()).collect();
    upto.sort();
    match &out.result {
        Ok(_) => Err("returned Ok after a stop answer".into()),
        Err(ids) => {
            let mut got = ids.clone();
            got.sort();
            if got != upto {
                Err(format!("after the stop the final error holds {got:?}, but {upto:?} had been reported by then"))
            } else {
                Ok(())
            }
        }
    }
}

/// Prefix rule: everything before the first Break is identical to the keep-going run.
pub fn check_c03_prefix(out: &Outcome, keep: &Outcome) -> Result<(), String> {
    if out.panicked.is_some() || keep.panicked.is_some() {
        return Ok(());
    }
    let answers = out.answers();
    let Some(k) = answers.iter().position(|b| *b) else {
        // no Break at all: the run must be the keep-going run
        if out.events != keep.events {
            return Err("two keep-going runs differ (nondeterminism)".into());
        }
        return Ok(());
    };
    let pos = out.decision_pos(k).unwrap();
    let Some(kpos) = keep.decision_pos(k) else {
        return Err(format!("decision {k} does not exist in the keep-going run ({} decisions)", keep.decisions));
    };
    if pos != kpos {
        return Err(format!(
            "decision {k} happens at event #{pos} but at event #{kpos} in the keep-going run: the runs differ before the stop"
        ));
    }
    for i in 0..pos {
        if out.events[i] != keep.events[i] {
            return Err(format!(
                "event #{i} before the first stop differs from the keep-going run: {:?} vs {:?}",
                out.events[i], keep.events[i]
            ));
        }
    }
    // the stop event itself: same call, other answer
    let same = match (&out.events[pos], &keep.events[pos]) {
        (
            Event::Report { id, on, kind, loc, self_ids, .. },
            Event::Report { id: i2, on: o2, kind: k2, loc: l2, self_ids: s2, .. },
        ) => id == i2 && on == o2 && kind == k2 && loc == l2 && self_ids == s2,
        (
            Event::Foreign { id, on, src, loc, self_ids, .. },
            Event::Foreign { id: i2, on: o2, src: r2, loc: l2, self_ids: s2, .. },
        ) => id == i2 && on == o2 && src == r2 && loc == l2 && self_ids == s2,
        (
            Event::HandOver { from, into, other_ids, self_ids, loc, .. },
            Event::HandOver { from: f2, into: i2, other_ids: o2, self_ids: s2, loc: l2, .. },
        ) => from == f2 && into == i2 && other_ids == o2 && self_ids == s2 && loc == l2,
        _ => false,
    };
    if !same {
        return Err(format!(
            "the call answered stop differs from the keep-going run: {:?} vs {:?}",
            out.events[pos], keep.events[pos]
        ));
    }
    Ok(())
}

/// Fail-fast corollary: under always-stop the result is exactly the first
/// report of the keep-going run.
pub fn check_c03_failfast(out: &Outcome, keep: &Outcome) -> Result<(), String> {
    if out.panicked.is_some() || keep.panicked.is_some() {
        return Ok(());
    }
    let first = keep.events.iter().find(|e| e.report_id().is_some());
    match (first, &out.result) {
        (None, Ok(v)) => {
            if keep.result.as_ref().ok() != Some(v) {
                return Err("fail-fast and keep-going runs succeed with different values".into());
            }
            Ok(())
        }
        (None, Err(_)) => Err("fail-fast run fails although the keep-going run reports nothing".into()),
        (Some(f), Ok(_)) => Err(format!("fail-fast run succeeds although the keep-going run reports {f:?}")),
        (Some(f), Err(ids)) => {
            let fid = f.report_id().unwrap();
            if *ids != vec![fid] {
                return Err(format!("fail-fast error holds {ids:?}, expected exactly the first keep-going report {fid}"));
            }
            let mine = out.events.iter().find(|e| e.report_id() == Some(fid));
            let same = match (mine, f) {
                (Some(Event::Report { kind, loc, .. }), Event::Report { kind: k2, loc: l2, .. }) => kind == k2 && loc == l2,
                (Some(Event::Foreign { src, loc, .. }), Event::Foreign { src: s2, loc: l2, .. }) => src == s2 && loc == l2,
                _ => false,
            };
            if !same {
                return Err(format!("fail-fast report {mine:?} is not the first keep-going report {f:?}"));
            }
            Ok(())
        }
    }
}

// ---------------------------------------------------------------------------------------
// C04 — every report points at the real culprit
// ---------------------------------------------------------------------------------------

fn is_prefix(a: &[Step], b: &[Step]) -> bool {
    a.len() <= b.len() && b[..a.len()] == *a
}

/// `tag_exempt`: tag keys of enums of which some variant has a field whose
/// effective key equals the tag (there the member found under that key *is* the
/// tag, and the field is truly absent from the remaining entries).
pub fn check_c04(payload: &Doc, out: &Outcome, tag_exempt: &[String]) -> Result<(), String> {
    check_c04_with(payload, out, tag_exempt, false)
}

/// `ambiguous_values`: the payload has duplicate keys or non-canonical numbers (only the second
/// value source can present it). A position then does not resolve to a unique value, so quoted
/// values are not compared; whether a key is present in an object is still unambiguous.
pub fn check_c04_with(payload: &Doc, out: &Outcome, tag_exempt: &[String], ambiguous_values: bool) -> Result<(), String> {
    if out.panicked.is_some() {
        return Ok(());
    }
    let fr = frames(&out.events);
    // frame stack at creation of each report id
    let mut born: Vec<(u32, Vec<usize>, Loc)> = vec![];
    // reports built by user functions carry the location user code chose (a container try_from
    // function is given none and can only name the origin): not a statement of the library
    let mut user_made: Vec<u32> = vec![];
    for (i, e) in out.events.iter().enumerate() {
        let frame_loc: Option<&Loc> = fr.stack_at[i].last().and_then(|j| out.events[*j].loc());
        match e {
            Event::Report { id, kind, loc, answer_ignored, .. } => {
                born.push((*id, fr.stack_at[i].clone(), loc.clone()));
                if *answer_ignored {
                    user_made.push(*id);
                }
                let Some(at) = payload.resolve(loc) else {
                    return Err(format!("report location {} does not exist in the payload: {e:?}", loc_str(loc)));
                };
                match kind {
                    RKind::IncorrectValueKind { .. } | RKind::UnknownValue { .. } | RKind::BadSequenceLen { .. } if ambiguous_values => {}
                    RKind::IncorrectValueKind { actual, accepted } => {
                        if at.canonical() != actual.canonical() {
                            return Err(format!(
                                "kind error at {} says the value is {} but the payload holds {} there",
                                loc_str(loc),
                                actual.text(),
                                at.text()
                            ));
                        }
                        if accepted.contains(&at.kind()) {
                            return Err(format!(
                                "kind error at {}: the value {} is of an accepted kind {accepted:?}",
                                loc_str(loc),
                                at.text()
                            ));
                        }
                    }
                    RKind::MissingField { field } => {
                        let Doc::Obj(_) = at else {
                            return Err(format!("missing field reported at {} which is not an object", loc_str(loc)));
                        };
                        if let Some(v) = at.get(field) {
                            let exempt = tag_exempt.contains(field) && matches!(v, Doc::Str(_));
                            if !exempt {
                                return Err(format!(
                                    "field `{field}` reported missing at {} but the object there has it: {}",
                                    loc_str(loc),
                                    at.text()
                                ));
                            }
                        }
                    }
                    RKind::UnknownKey { key, accepted } => {
                        if at.get(key).is_none() {
                            return Err(format!(
                                "unknown key `{key}` reported at {} but the object there has no such member: {}",
                                loc_str(loc),
                                at.text()
                            ));
                        }
                        if accepted.contains(key) {
                            return Err(format!("key `{key}` reported unknown although it is among the accepted keys {accepted:?}"));
                        }
                    }
                    RKind::UnknownValue { value, accepted } => {
                        if *at != Doc::Str(value.clone()) {
                            return Err(format!(
                                "unknown value `{value}` reported at {} but the payload holds {} there",
                                loc_str(loc),
                                at.text()
                            ));
                        }
                        if accepted.contains(value) {
                            return Err(format!("value `{value}` reported unknown although it is accepted {accepted:?}"));
                        }
                    }
                    RKind::BadSequenceLen { actual, expected } => {
                        if at.canonical() != actual.canonical() {
                            return Err(format!(
                                "arity error at {} quotes {} but the payload holds {} there",
                                loc_str(loc),
                                actual.text(),
                                at.text()
                            ));
                        }
                        match at {
                            Doc::Seq(v) if v.len() != *expected => {}
                            _ => return Err(format!("arity error at {}: the sequence there has the expected length", loc_str(loc))),
                        }
                    }
                    RKind::Unexpected { .. } => {}
                }
            }
            Event::Foreign { id, loc, .. } => {
                born.push((*id, fr.stack_at[i].clone(), loc.clone()));
                if payload.resolve(loc).is_none() {
                    return Err(format!("conversion/validation failure reported at {} which does not exist in the payload", loc_str(loc)));
                }
                if let Some(fl) = frame_loc {
                    if !is_prefix(fl, loc) {
                        return Err(format!(
                            "failure reported at {} from inside the container at {}",
                            loc_str(loc),
                            loc_str(fl)
                        ));
                    }
                }
            }
            Event::HandOver { other_ids, loc, .. } => {
                if payload.resolve(loc).is_none() {
                    return Err(format!("hand-over location {} does not exist in the payload", loc_str(loc)));
                }
                let here = &fr.stack_at[i];
                for oid in other_ids {
                    let Some((_, stack, rloc)) = born.iter().find(|(id, _, _)| id == oid) else {
                        return Err(format!("hand-over of unknown report {oid}"));
                    };
                    if !is_prefix(loc, rloc) && !user_made.contains(oid) {
                        return Err(format!(
                            "error handed over at {} holds a report made at {}, which is not below it",
                            loc_str(loc),
                            loc_str(rloc)
                        ));
                    }
                    // the child's own position: if the report was made in a frame nested in the
                    // current one, the hand-over location is that of the direct child frame
                    if stack.len() > here.len() && stack[..here.len()] == here[..] {
                        let child = stack[here.len()];
                        let cl = out.events[child].loc().unwrap();
                        if cl != loc {
                            return Err(format!(
                                "child at {} failed but its error was handed over at {}",
                                loc_str(cl),
                                loc_str(loc)
                            ));
                        }
                    } else if let Some(fl) = frame_loc {
                        // a report made by this very container below itself (a failed field
                        // conversion held by a field-level error type): the child is that field,
                        // so the hand-over names a position below the container, never the
                        // container's own. (Positions between the two are not constrained here:
                        // a frame may hold nested containers that are not probed, e.g. the
                        // recursive impl for serde_json::Value.)
                        if stack[..] == here[..] && !user_made.contains(oid) && loc == fl && rloc.len() > fl.len() {
                            return Err(format!(
                                "report made at {} by the container at {} was handed over to the container's error type at {}",
                                loc_str(rloc),
                                loc_str(fl),
                                loc_str(loc)
                            ));
                        }
                        if !is_prefix(fl, loc) {
                            return Err(format!(
                                "hand-over at {} made by the container at {}",
                                loc_str(loc),
                                loc_str(fl)
                            ));
                        }
                    }
                }
            }
            Event::UserFn(c) => {
                let (cl, what) = match c {
                    UserCall::CustomMissing { loc, .. } => (loc, "missing_field_error function"),
                    UserCall::CustomUnknown { loc, .. } => (loc, "deny_unknown_fields function"),
                    UserCall::Validate { loc, .. } => (loc, "validate function"),
                    _ => continue,
                };
                if Some(cl) != frame_loc {
                    return Err(format!(
                        "{what} received location {} but its container is at {}",
                        loc_str(cl),
                        frame_loc.map(|l| loc_str(l)).unwrap_or_default()
                    ));
                }
                let at = payload.resolve(cl);
                match c {
                    UserCall::CustomMissing { key, .. } => {
                        if let Some(v) = at.and_then(|a| a.get(key)) {
                            if !(tag_exempt.contains(key) && matches!(v, Doc::Str(_))) {
                                return Err(format!("missing_field_error called for `{key}` which is present"));
                            }
                        }
                    }
                    UserCall::CustomUnknown { key, accepted, .. } => {
                        if at.and_then(|a| a.get(key)).is_none() || accepted.contains(key) {
                            return Err(format!("deny_unknown_fields function called for `{key}` (accepted {accepted:?}) wrongly"));
                        }
                    }
                    _ => {}
                }
            }
            _ => {}
        }
    }
    Ok(())
}

// ---------------------------------------------------------------------------------------
// comparison with the reference interpreter
// ---------------------------------------------------------------------------------------

#[derive(Clone, Copy, Debug, PartialEq, Eq)]
pub struct Aspects {
    pub status: bool,
    pub value: bool,
    pub reports: bool,
    pub visited: bool,
    pub calls: bool,
}

impl Aspects {
    pub const ALL: Aspects = Aspects { status: true, value: true, reports: true, visited: true, calls: true };
}

pub fn user_calls(out: &Outcome) -> Vec<UserCall> {
    out.events
        .iter()
        .filter_map(|e| match e {
            Event::UserFn(c) => Some(c.clone()),
            _ => None,
        })
        .collect()
}

pub fn visits(out: &Outcome) -> Vec<Loc> {
    out.events
        .iter()
        .filter_map(|e| match e {
            Event::Enter { loc, .. } => Some(loc.clone()),
            _ => None,
        })
        .collect()
}

/// Compares a keep-going execution with the reference outcome.
pub fn check_reference(out: &Outcome, r: &RefOut, asp: Aspects, value_ambiguous: bool) -> Result<(), String> {
    if out.panicked.is_some() {
        return Ok(());
    }
    if asp.status {
        match (&out.result, &r.value) {
            (Ok(v), None) => {
                return Err(format!(
                    "the call succeeded with {} but must fail: expected {:?}",
                    v.text(),
                    r.required.first()
                ))
            }
            (Err(_), Some(v)) => {
                return Err(format!(
                    "the call failed but must succeed with {}; reports made: {:?}",
                    v.text(),
                    out.reports()
                ))
            }
            _ => {}
        }
    }
    if asp.value && !value_ambiguous {
        if let (Ok(v), Some(e)) = (&out.result, &r.value) {
            if v != e {
                return Err(format!("result value is {} but must be {}", v.text(), e.text()));
            }
        }
    }
    if asp.reports {
        match_reports(&r.required, &r.optional, &out.reports())?;
    }
    if asp.visited {
        let mut obs = visits(out);
        obs.sort();
        match_multiset("examination of position", &r.visited, &r.visited_optional, &obs)?;
    }
    if asp.calls {
        match_multiset("user function call", &r.calls, &r.calls_optional, &user_calls(out))?;
    }
    Ok(())
}
