pub mod doc;
pub mod entry;
pub mod probe;
pub mod rec;

/// What generated catalogue code imports.
pub mod prelude {
    pub use crate::doc::Doc;
    pub use crate::entry::{entry_all, entry_rec, Entry};
    pub use crate::probe::*;
    pub use crate::rec::{ConvErr, RecA, RecB, ValErr};
    pub use serde_cs::vec::CS;
}
