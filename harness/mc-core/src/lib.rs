pub mod deep;
pub mod doc;
pub mod engine;
pub mod entry;
pub mod evidence;
pub mod explore;
pub mod invariance;
pub mod messages;
pub mod oracles;
pub mod probe;
pub mod props;
pub mod pure;
pub mod rec;
pub mod reference;
pub mod replay;
pub mod scalar;
pub mod space;

/// What generated catalogue code imports.
pub mod prelude {
    pub use crate::doc::Doc;
    pub use crate::entry::{entry_all, entry_rec, Entry};
    pub use crate::probe::*;
    pub use crate::rec::{ConvErr, RecA, RecB, ValErr};
    pub use serde_cs::vec::CS;
}

use evidence::Tier;

/// Entry point shared by the quick and thorough binaries.
pub fn main_with(entries: Vec<entry::Entry>, cat: mc_desc::Catalogue) -> i32 {
    let args: Vec<String> = std::env::args().collect();
    if args.len() < 2 {
        eprintln!("usage: {} <PROPERTY> [quick|thorough] | replay <file> | stats", args[0]);
        return 2;
    }
    let tier = match args.get(2).map(|s| s.as_str()).or(std::env::var("VERIF_TIER").ok().as_deref()) {
        Some("thorough") => Tier::Thorough,
        _ => Tier::Quick,
    };
    let threads = std::env::var("VERIF_THREADS").ok().and_then(|s| s.parse().ok()).unwrap_or(16);
    let e = engine::Engine { cat: &cat, entries: &entries, tier, threads };
    match args[1].as_str() {
        "replay" => replay::replay(&e, args.get(2).map(|s| s.as_str()).unwrap_or("")),
        "stats" => {
            println!("roots {} items {}", cat.roots.len(), cat.items.len());
            0
        }
        "C01" => props::run_catalogue(&e, "C01"),
        "C02" => props::run_catalogue(&e, "C02"),
        "C03" => props::run_catalogue(&e, "C03"),
        "C04" => props::run_catalogue(&e, "C04"),
        "C06" => props::run_catalogue(&e, "C06"),
        "C07" => props::run_catalogue(&e, "C07"),
        "C08" => props::run_catalogue(&e, "C08"),
        "C09" => props::run_catalogue(&e, "C09"),
        "C10" => props::run_catalogue(&e, "C10"),
        "C11" => props::run_catalogue(&e, "C11"),
        "C12" => props::run_catalogue(&e, "C12"),
        "C14" => messages::run_c14(&e),
        "C15" => invariance::run_c15(&e),
        "deep-child" => deep::child(&e, args.get(2).map(|s| s.as_str()).unwrap_or("")),
        "C05" => pure::run_c05(tier),
        "C13" => pure::run_c13(tier),
        "C17" => pure::run_c17(tier),
        "C18" => pure::run_c18(tier),
        "C19" => pure::run_c19(tier),
        other => {
            eprintln!("unknown property {other}");
            2
        }
    }
}
