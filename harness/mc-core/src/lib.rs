pub mod deep;
pub mod doc;
pub mod engine;
pub mod entry;
pub mod evidence;
pub mod explore;
pub mod history;
pub mod invariance;
pub mod messages;
pub mod names;
pub mod oracles;
pub mod probe;
pub mod props;
pub mod pure;
pub mod rec;
pub mod reference;
pub mod replay;
pub mod scalar;
pub mod space;

/// What generated catalogue code imports.
pub mod prelude {
    pub use crate::doc::Doc;
    pub use crate::entry::{entry_all, entry_rec, Entry};
    pub use crate::probe::*;
    pub use crate::rec::{Cheap, ConvErr, RecA, RecB, ValErr};
    pub use serde_cs::vec::CS;
}

use evidence::Tier;

/// Entry point shared by the quick and thorough binaries.
pub fn main_with(entries: Vec<entry::Entry>, cat: mc_desc::Catalogue) -> i32 {
    let args: Vec<String> = std::env::args().collect();
    if args.len() < 2 {
        eprintln!("usage: {} <PROPERTY> [quick|thorough] | replay <file> | stats", args[0]);
        return 2;
    }
    let tier = match args.get(2).map(|s| s.as_str()).or(std::env::var("VERIF_TIER").ok().as_deref()) {
        Some("thorough") => Tier::Thorough,
        _ => Tier::Quick,
    };
    let threads = std::env::var("VERIF_THREADS").ok().and_then(|s| s.parse().ok()).unwrap_or(16);
    let e = engine::Engine { cat: &cat, entries: &entries, tier, threads };
    match args[1].as_str() {
        "replay" => replay::replay(&e, args.get(2).map(|s| s.as_str()).unwrap_or("")),
        "stats" => {
            println!("roots {} items {}", cat.roots.len(), cat.items.len());
            0
        }
        "C01" => props::run_catalogue(&e, "C01"),
        "C02" => props::run_catalogue(&e, "C02"),
        "C03" => props::run_catalogue(&e, "C03"),
        "C04" => props::run_catalogue(&e, "C04"),
        "C06" => props::run_catalogue(&e, "C06"),
        "C07" => props::run_catalogue(&e, "C07"),
        "C08" => props::run_catalogue(&e, "C08"),
        "C09" => props::run_catalogue(&e, "C09"),
        "C10" => props::run_catalogue(&e, "C10"),
        "C11" => props::run_catalogue(&e, "C11"),
        "C12" => props::run_catalogue(&e, "C12"),
        "C14" => messages::run_c14(&e),
        "C15" => invariance::run_c15(&e),
        "deep-child" => deep::child(&e, args.get(2).map(|s| s.as_str()).unwrap_or("")),
        "C05" => pure::run_c05(tier),
        "C13" => pure::run_c13(tier),
        "C17" => pure::run_c17(tier),
        "C18" => pure::run_c18(tier),
        "C19" => pure::run_c19(tier),
        other => {
            eprintln!("unknown property {other}");
            2
        }
    }
}

#[cfg(test)]
mod tests {
    use crate::doc::*;
    use crate::rec::Script;

    #[test]
    fn reference_distance_and_names() {
        assert_eq!(crate::pure::damerau_levenshtein("ca", "abc"), 2);
        assert_eq!(crate::pure::damerau_levenshtein("highglht", "highlight"), 2);
        assert_eq!(crate::reference::camel("attributes_to_retrieve"), "attributesToRetrieve");
        assert_eq!(crate::reference::camel("BetaTwo"), "betaTwo");
        assert!(crate::reference::self_check().is_ok());
    }

    #[test]
    fn documents_round_trip_through_the_replay_encoding() {
        let d = Doc::Obj(vec![
            ("b".into(), Doc::Seq(vec![Doc::Int(u64::MAX), Doc::Neg(i64::MIN), Doc::Float(-0.0), Doc::Float(f64::NAN)])),
            ("a".into(), Doc::Null),
            ("b".into(), Doc::s("dup")),
        ]);
        let back = crate::evidence::doc_from_tagged(&crate::evidence::doc_to_tagged(&d));
        assert_eq!(back.text(), d.text());
        assert!(!d.is_plain());
        assert_eq!(d.canonical().text(), r#"{"a":null,"b":"dup"}"#);
    }

    #[test]
    fn scripts_and_small_documents() {
        let s = Script { prefix: vec![false, true, false], default: true };
        assert_eq!(Script::parse(&s.text()), s);
        let docs = crate::space::small_docs(2, &["a".into(), "b".into()], &[Doc::Null, Doc::Int(1)]);
        // size 1: 2 leaves + [] + {} ; size 2: [x] ×4 , {a:x} ×4, {b:x} ×4
        assert_eq!(docs.len(), 4 + 12);
    }

    #[test]
    fn scalar_specification() {
        use crate::scalar::*;
        use mc_desc::Scalar;
        assert_eq!(int_bounds(true, 8), ("-128".to_string(), "127".to_string()));
        assert_eq!(int_bounds(false, 128).1, "340282366920938463463374607431768211455");
        assert!(matches!(scalar_expect(Scalar::NzI8, &Doc::Neg(0)), ScalarExpect::Domain(Domain::Zero)));
        assert!(!domain_message_ok(&Domain::Zero, "value: `0` is too small to be deserialized, minimum value authorized is `-128`"));
        assert!(domain_message_ok(&Domain::Zero, "a non-zero integer value higher than `-128` was expected, but found a zero"));
        // 2^60 + 2^36 + 1 rounds up to 2^60 + 2^37 in one step
        let v = (1u64 << 60) + (1 << 36) + 1;
        assert_eq!(to_f32_ref(&Doc::Int(v)), ((1u64 << 60) + (1 << 37)) as f32);
    }
}
