//! Entry points into the real `deserr::deserialize`, monomorphised per catalogue
//! type by the generated catalogue crates.

use crate::doc::*;
use crate::probe::*;
use crate::rec::*;
use deserr::errors::{JsonError, QueryParamError};
use deserr::Deserr;

#[derive(Clone, Copy, Debug, PartialEq, Eq, Hash)]
pub enum Src {
    /// `serde_json::Value` (sorted maps, no duplicates)
    Json,
    /// the order-preserving second `IntoValue` implementation (`Doc`)
    Ov,
}

pub type RunRec = fn(Src, &Doc) -> Result<Doc, Vec<u32>>;
pub type RunMsg = fn(Src, &Doc) -> Result<Doc, String>;

#[derive(Clone, Copy)]
pub struct Entry {
    pub id: usize,
    pub run_rec: RunRec,
    pub run_json: Option<RunMsg>,
    pub run_query: Option<RunMsg>,
}

pub fn run_rec<T: Deserr<RecA> + Dump>(src: Src, d: &Doc) -> Result<Doc, Vec<u32>> {
    let r: Result<T, RecA> = match src {
        Src::Json => deserr::deserialize::<T, serde_json::Value, RecA>(d.to_json()),
        Src::Ov => deserr::deserialize::<T, Doc, RecA>(d.clone()),
    };
    r.map(|v| v.dump()).map_err(|e| e.ids)
}

fn run_json<T: Deserr<JsonError> + Dump>(src: Src, d: &Doc) -> Result<Doc, String> {
    match src {
        Src::Json => deserr::deserialize::<T, serde_json::Value, JsonError>(d.to_json()),
        Src::Ov => deserr::deserialize::<T, Doc, JsonError>(d.clone()),
    }
    .map(|v| v.dump())
    .map_err(|e| e.to_string())
}

fn run_query<T: Deserr<QueryParamError> + Dump>(src: Src, d: &Doc) -> Result<Doc, String> {
    match src {
        Src::Json => deserr::deserialize::<T, serde_json::Value, QueryParamError>(d.to_json()),
        Src::Ov => deserr::deserialize::<T, Doc, QueryParamError>(d.clone()),
    }
    .map(|v| v.dump())
    .map_err(|e| e.to_string())
}

pub fn entry_rec<T: Deserr<RecA> + Dump>(id: usize) -> Entry {
    Entry { id, run_rec: run_rec::<T>, run_json: None, run_query: None }
}

pub fn entry_all<T: Deserr<RecA> + Deserr<JsonError> + Deserr<QueryParamError> + Dump>(id: usize) -> Entry {
    Entry { id, run_rec: run_rec::<T>, run_json: Some(run_json::<T>), run_query: Some(run_query::<T>) }
}
