//! The exploration driver shared by the catalogue-based properties: enumerates
//! (type, payload, source, answer script) and applies a property's oracle to
//! every execution (DESIGN.md §3, §5).

use crate::doc::*;
use crate::entry::*;
use crate::evidence::*;
use crate::explore::*;
use crate::rec::*;
use crate::reference::field_key;
use crate::space::*;
use mc_desc::emit::ty_str;
use mc_desc::*;
use serde_json::json;
use std::collections::HashSet;
use std::sync::atomic::{AtomicUsize, Ordering};

#[derive(Clone, Copy, Debug)]
pub struct Bounds {
    /// simultaneous faults per payload (depth of the fault-injection BFS)
    pub faults: usize,
    /// richer key / tag universes
    pub rich: bool,
    /// node bound of the small-document space
    pub small_nodes: usize,
    /// complete decision tree up to this many leaves
    pub max_leaves: usize,
    /// deviation bound of the fallback script families
    pub d: usize,
    /// cap on states per type (a cap hit is reported, never called exhaustive)
    pub state_cap: usize,
}

pub fn bounds(tier: Tier) -> Bounds {
    let mut b = bounds_of(tier);
    // experiment knob (not used by the registered commands)
    if let Some(c) = std::env::var("VERIF_STATE_CAP").ok().and_then(|s| s.parse().ok()) {
        b.state_cap = c;
    }
    b
}

fn bounds_of(tier: Tier) -> Bounds {
    match tier {
        Tier::Quick => Bounds { faults: 2, rich: false, small_nodes: 3, max_leaves: 1 << 10, d: 1, state_cap: 6_000 },
        Tier::Thorough => {
            Bounds { faults: 3, rich: true, small_nodes: 4, max_leaves: 1 << 14, d: 2, state_cap: 150_000 }
        }
    }
}

#[derive(Clone, Copy, Debug, PartialEq, Eq)]
pub enum Scripts {
    KeepOnly,
    Tree,
}

pub struct Case<'a> {
    pub cat: &'a Catalogue,
    pub root: usize,
    pub ty: &'a Ty,
    pub src: Src,
    /// the payload as presented to the source (canonical for `Src::Json`)
    pub payload: &'a Doc,
    pub plain: bool,
    pub tag_exempt: &'a [String],
}

pub type Check<'c> = dyn Fn(&Case, &Script, &Outcome, &Outcome) -> Result<(), String> + Sync + 'c;

pub struct Engine<'a> {
    pub cat: &'a Catalogue,
    pub entries: &'a [Entry],
    pub tier: Tier,
    pub threads: usize,
}

/// Tag keys of enums that have a variant field whose effective key equals the tag.
pub fn tag_exemptions(cat: &Catalogue, ty: &Ty) -> Vec<String> {
    fn go(cat: &Catalogue, ty: &Ty, seen: &mut Vec<usize>, out: &mut Vec<String>) {
        match ty {
            Ty::Sc(_) | Ty::Json | Ty::Phantom | Ty::Cs(_) => {}
            Ty::P(t) | Ty::Opt(t) | Ty::Bx(t) | Ty::Vec(t) | Ty::HSet(t) | Ty::BSet(t) | Ty::Arr(t, _) => go(cat, t, seen, out),
            Ty::Tup(ts) => ts.iter().for_each(|t| go(cat, t, seen, out)),
            Ty::Map { val, .. } => go(cat, val, seen, out),
            Ty::Item(i) => {
                if seen.contains(i) {
                    return;
                }
                seen.push(*i);
                match &cat.items[*i] {
                    Item::Struct(s) => s.fields.iter().for_each(|f| go(cat, &f.ty, seen, out)),
                    Item::Enum(e) => {
                        for v in &e.variants {
                            for f in v.fields.iter().flatten() {
                                if let Some(t) = &e.tag {
                                    if field_key(f, v.rename_all) == *t && !out.contains(t) {
                                        out.push(t.clone());
                                    }
                                }
                                go(cat, &f.ty, seen, out);
                            }
                        }
                    }
                    Item::Conv(c) => go(cat, &c.via, seen, out),
                }
            }
        }
    }
    let mut out = vec![];
    go(cat, ty, &mut vec![], &mut out);
    out
}

pub fn contains_json_target(cat: &Catalogue, ty: &Ty) -> bool {
    fn go(cat: &Catalogue, ty: &Ty, seen: &mut Vec<usize>) -> bool {
        match ty {
            Ty::Json => true,
            Ty::Sc(_) | Ty::Phantom | Ty::Cs(_) => false,
            Ty::P(t) | Ty::Opt(t) | Ty::Bx(t) | Ty::Vec(t) | Ty::HSet(t) | Ty::BSet(t) | Ty::Arr(t, _) => go(cat, t, seen),
            Ty::Tup(ts) => ts.iter().any(|t| go(cat, t, seen)),
            Ty::Map { val, .. } => go(cat, val, seen),
            Ty::Item(i) => {
                if seen.contains(i) {
                    return false;
                }
                seen.push(*i);
                match &cat.items[*i] {
                    Item::Struct(s) => s.fields.iter().any(|f| go(cat, &f.ty, seen)),
                    Item::Enum(e) => e.variants.iter().flat_map(|v| v.fields.iter().flatten()).any(|f| go(cat, &f.ty, seen)),
                    Item::Conv(c) => go(cat, &c.via, seen),
                }
            }
        }
    }
    go(cat, ty, &mut vec![])
}

/// Order-insensitive summary of an outcome, for counting distinct behaviours.
pub fn outcome_signature(root: usize, out: &Outcome) -> (u64, bool) {
    let mut parts: Vec<String> = vec![];
    let nontrivial;
    match &out.result {
        Ok(v) => {
            nontrivial = !matches!(v, Doc::Null);
            parts.push(format!("ok:{}", v.text()));
        }
        Err(_) => {
            nontrivial = true;
            for e in out.reports() {
                match e {
                    Event::Report { kind, loc, .. } => parts.push(format!("{}@{}:{:?}", kind.name(), loc_str(loc), kind)),
                    Event::Foreign { src, loc, .. } => parts.push(format!("foreign@{}:{:?}", loc_str(loc), src)),
                    _ => {}
                }
            }
            parts.sort();
        }
    }
    if out.panicked.is_some() {
        parts.push("panic".into());
    }
    (hash64(&(root, parts)), nontrivial)
}

/// Adversarial variants of a base payload that only the second value source can
/// present: duplicate keys (incl. a duplicated tag), non-canonical numbers,
/// non-finite floats.
pub fn adversarial(base: &Doc) -> Vec<Doc> {
    let mut out = vec![];
    fn paths(d: &Doc, cur: &mut Loc, out: &mut Vec<Loc>) {
        out.push(cur.clone());
        match d {
            Doc::Seq(v) => {
                for (i, e) in v.iter().enumerate() {
                    cur.push(Step::Index(i));
                    paths(e, cur, out);
                    cur.pop();
                }
            }
            Doc::Obj(m) => {
                for (k, e) in m {
                    cur.push(Step::Key(k.clone()));
                    paths(e, cur, out);
                    cur.pop();
                }
            }
            _ => {}
        }
    }
    let mut ps = vec![];
    paths(base, &mut vec![], &mut ps);
    // every numeric leaf non-finite at once (several faults a Value target cannot hold)
    {
        let mut d = base.clone();
        let mut n = 0;
        for p in &ps {
            if matches!(base.resolve(p), Some(Doc::Int(_) | Doc::Neg(_) | Doc::Float(_))) {
                *d.resolve_mut(p).unwrap() = Doc::Float(if n % 2 == 0 { f64::NAN } else { f64::INFINITY });
                n += 1;
            }
        }
        if n > 1 {
            out.push(d);
        }
    }
    for p in ps {
        let at = base.resolve(&p).unwrap();
        match at {
            Doc::Obj(m) if !m.is_empty() => {
                // duplicate every member once: same value, different valid-looking value, ill-typed value
                for (k, v) in m {
                    for dupv in [v.clone(), Doc::Int(4), Doc::s("dup"), Doc::Null] {
                        let mut d = base.clone();
                        if let Some(Doc::Obj(mm)) = d.resolve_mut(&p) {
                            mm.push((k.clone(), dupv.clone()));
                        }
                        out.push(d);
                        // duplicate first
                        let mut d = base.clone();
                        if let Some(Doc::Obj(mm)) = d.resolve_mut(&p) {
                            mm.insert(0, (k.clone(), dupv));
                        }
                        out.push(d);
                    }
                }
            }
            Doc::Int(_) | Doc::Neg(_) | Doc::Float(_) => {
                for r in [
                    Doc::Neg(5),
                    Doc::Neg(0),
                    Doc::Float(f64::NAN),
                    Doc::Float(f64::INFINITY),
                    Doc::Float(f64::NEG_INFINITY),
                    Doc::Int(u64::MAX),
                    Doc::Neg(i64::MIN),
                ] {
                    let mut d = base.clone();
                    *d.resolve_mut(&p).unwrap() = r;
                    out.push(d);
                }
            }
            _ => {}
        }
    }
    out
}

pub struct SweepCfg<'c> {
    pub property: &'c str,
    pub select: &'c (dyn Fn(&Root) -> bool + Sync),
    pub scripts: Scripts,
    pub sources: &'c [Src],
    /// include payloads with duplicate keys / non-canonical numbers (second source only)
    pub adversarial: bool,
    /// also run the keep-going check on non-plain payloads only (otherwise all checks see them)
    pub check: &'c Check<'c>,
}

impl<'a> Engine<'a> {
    /// The payload space of one root: fault-injection closure ∪ small documents.
    pub fn payloads(&self, ty: &Ty, rec: &Recorder, note: &str) -> (Vec<Doc>, usize) {
        let b = bounds(self.tier);
        let g = Gen::new(self.cat);
        let cl = g.closure(ty, b.faults, b.rich, b.state_cap);
        if cl.capped {
            rec.cap_hit(format!("state cap {} reached for {note} (fault closure truncated at depth ≤ {})", b.state_cap, b.faults));
        }
        let mut seen: HashSet<String> = HashSet::new();
        let mut docs: Vec<Doc> = vec![];
        for (d, _) in cl.states {
            if seen.insert(d.text()) {
                docs.push(d);
            }
        }
        let (keys, leaves) = g.small_alphabet(ty);
        for d in small_docs(b.small_nodes, &keys, &leaves) {
            if seen.insert(d.text()) {
                docs.push(d);
            }
        }
        (docs, cl.transitions)
    }

    pub fn sweep(&self, cfg: &SweepCfg, rec: &Recorder) {
        let b = bounds(self.tier);
        let roots: Vec<usize> = (0..self.cat.roots.len()).filter(|i| (cfg.select)(&self.cat.roots[*i])).collect();
        rec.set_extra("types", json!(roots.len()));
        rec.set_extra(
            "bounds",
            json!({"faults_per_payload": b.faults, "small_document_nodes": b.small_nodes, "complete_decision_tree_up_to_leaves": b.max_leaves,
                   "fallback_deviation_bound": b.d, "state_cap_per_type": b.state_cap,
                   "scripts": format!("{:?}", cfg.scripts), "sources": format!("{:?}", cfg.sources)}),
        );
        let next = AtomicUsize::new(0);
        std::thread::scope(|s| {
            for _ in 0..self.threads {
                s.spawn(|| {
                    silence_panics();
                    loop {
                        let n = next.fetch_add(1, Ordering::SeqCst);
                        if n >= roots.len() {
                            break;
                        }
                        self.sweep_root(roots[n], cfg, rec, &b);
                    }
                });
            }
        });
    }

    fn sweep_root(&self, ri: usize, cfg: &SweepCfg, rec: &Recorder, b: &Bounds) {
        let root = &self.cat.roots[ri];
        let entry = &self.entries[ri];
        assert_eq!(entry.id, ri);
        let tystr = ty_str(&root.ty, self.cat);
        let subject = format!("{tystr} [{}: {}]", root.group, root.note);
        let (docs, closure_transitions) = self.payloads(&root.ty, rec, &subject);
        let tag_exempt = tag_exemptions(self.cat, &root.ty);
        let mut sigs: HashSet<u64> = HashSet::new();
        let mut nontrivial: HashSet<u64> = HashSet::new();
        let mut executions = 0u64;
        let mut edges = 0u64;
        let mut states = 0u64;
        let mut violations_here = 0;
        let mut incomplete_trees = 0u64;

        let mut cases: Vec<(Doc, bool)> = docs.into_iter().map(|d| (d, true)).collect();
        if cfg.adversarial && cfg.sources.contains(&Src::Ov) {
            let g = Gen::new(self.cat);
            let mut seen: HashSet<String> = HashSet::new();
            for base in g.bases(&root.ty) {
                for a in adversarial(&base) {
                    if !a.is_plain() && seen.insert(a.text()) {
                        cases.push((a, false));
                    }
                }
            }
        }

        // the second value source also presents every canonical payload with the members of all
        // objects in reverse order (an order serde_json never produces)
        let mut presentations: Vec<(Doc, bool, Src)> = vec![];
        for (doc, plain) in cases {
            for &src in cfg.sources {
                if !plain && src == Src::Json {
                    continue;
                }
                if src == Src::Ov && plain {
                    let r = doc.reversed();
                    if r != doc {
                        presentations.push((r, true, Src::Ov));
                        // quick tier, decision-tree sweeps: the second source presents the reversed
                        // order only (its canonical-order presentation walks the same deserr paths as
                        // serde_json's; the keep-going sweeps and the thorough tier run all three)
                        if self.tier == Tier::Quick && cfg.scripts == Scripts::Tree {
                            continue;
                        }
                    }
                }
                presentations.push((doc.clone(), plain, src));
            }
        }
        'cases: for (doc, plain, src) in &presentations {
            if *src == Src::Json || !*plain {
                states += 1;
            }
            {
                let src = *src;
                let case = Case { cat: self.cat, root: ri, ty: &root.ty, src, payload: doc, plain: *plain, tag_exempt: &tag_exempt };
                let run = |s: &Script| execute(entry, src, doc, s);
                let keep = run(&Script::keep_going());
                executions += 1;
                let (h, nt) = outcome_signature(ri, &keep);
                sigs.insert(h);
                if nt {
                    nontrivial.insert(h);
                }
                let mut fail = |script: &Script, out: &Outcome, msg: String| {
                    rec.violation(Violation {
                        property: cfg.property.to_string(),
                        subject: subject.clone(),
                        message: format!("{msg}\n  payload: {}\n  source: {:?}  script: {}", doc.text(), src, script.text()),
                        replay: json!({
                            "kind": "catalogue",
                            "root": ri,
                            "type": tystr,
                            "source": format!("{:?}", src),
                            "payload_text": doc.text(),
                            "payload": doc_to_tagged(doc),
                            "script": script.text(),
                            "observed_result": format!("{:?}", out.result),
                            "observed_events": out.events.iter().map(|e| format!("{e:?}")).collect::<Vec<_>>(),
                        }),
                    });
                };
                match cfg.scripts {
                    Scripts::KeepOnly => {
                        if let Err(m) = (cfg.check)(&case, &Script::keep_going(), &keep, &keep) {
                            if run(&Script::keep_going()) != keep {
                                rec.machinery_error(format!("the keep-going run on {} does not reproduce its own log ({subject})", doc.text()));
                            }
                            fail(&Script::keep_going(), &keep, m);
                            violations_here += 1;
                        }
                    }
                    Scripts::Tree => {
                        let mut first_err: Option<(Script, Outcome, String)> = None;
                        // the reversed-order presentation gets complete trees only when they are small
                        // (the canonical-order presentation of the same payload gets the full bound)
                        let is_reversed = src == Src::Ov && *plain && *doc != doc.canonical();
                        let leaves = if is_reversed { b.max_leaves.min(64) } else { b.max_leaves };
                        let st = explore_scripts(&run, leaves, b.d, &mut |s, o| {
                            if first_err.is_none() {
                                if let Err(m) = (cfg.check)(&case, s, o, &keep) {
                                    first_err = Some((s.clone(), o.clone(), m));
                                }
                            }
                        });
                        executions += st.executions as u64;
                        edges += st.edges as u64;
                        if !st.complete {
                            incomplete_trees += 1;
                        }
                        if let Some((s, o, m)) = first_err {
                            // replay the schedule before trusting the failure
                            if run(&s) != o {
                                rec.machinery_error(format!("script {} on {} does not reproduce its own log ({subject})", s.text(), doc.text()));
                            }
                            fail(&s, &o, m);
                            violations_here += 1;
                        }
                    }
                }
                if rec.want_sample() && nt {
                    rec.sample(json!({
                        "type": tystr, "catalogue_group": root.group, "payload": doc.text(), "source": format!("{:?}", src),
                        "keep_going_result": match &keep.result { Ok(v) => format!("Ok({})", v.text()), Err(ids) => format!("Err(reports {ids:?})") },
                        "keep_going_events": keep.events.iter().map(|e| format!("{e:?}")).collect::<Vec<_>>(),
                    }));
                }
                if violations_here >= 3 {
                    break 'cases;
                }
            }
        }
        rec.add_counts(states, closure_transitions as u64 + edges, executions);
        rec.add_signatures(&sigs, &nontrivial);
        if incomplete_trees > 0 {
            rec.add_extra_count("payloads_whose_decision_tree_exceeded_the_leaf_bound_(explored_by_bounded_families)", incomplete_trees);
            rec.not_exhaustive();
        }
    }
}
