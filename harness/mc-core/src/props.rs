//! Per-property specifications of the catalogue-based checks: which roots,
//! which answer scripts, which oracle.  `run_catalogue` drives them; `replay`
//! re-applies the same oracle to one recorded case.

use crate::doc::*;
use crate::engine::*;
use crate::entry::*;
use crate::evidence::*;
use crate::explore::*;
use crate::oracles::*;
use crate::rec::*;
use crate::reference::*;
use mc_desc::*;

const ASSUME_COMMON: &[&str] = &[
    "exhaustive only within the stated alphabets and bounds (see coverage.bounds and DESIGN.md §6, §10)",
    "every explored behaviour is an execution of /repo's real deserr::deserialize through user-level extension points (custom DeserializeError, custom IntoValue, probe types); no model of the code is involved",
    "trusted base: rustc/cargo, serde_json, the harness itself",
];

const ASSUME_REF: &[&str] = &[
    "the reference interpreter (mc-core/src/reference.rs) is a second implementation of the documented semantics; a shared misunderstanding would go unnoticed",
    "identifier alphabet restricted to shapes on which camelCase is uncontroversial (no digits, no acronyms)",
    "payloads whose map keys collide after parsing are compared on status and reports only (which entry wins is the definition of a map, not fixed by the statements)",
];

fn is_all_break(out: &Outcome) -> bool {
    let a = out.answers();
    !a.is_empty() && a.iter().all(|b| *b)
}

fn group_in(r: &Root, gs: &[&str]) -> bool {
    gs.is_empty() || gs.iter().any(|g| r.group == *g)
}

/// Filters both sides of a reference comparison to the report classes a property speaks about.
#[derive(Clone, Copy)]
struct RefCfg {
    asp: Aspects,
    report_class: fn(&ReportClass) -> bool,
    call_class: fn(&UserCall) -> bool,
}

#[derive(Clone, Copy, Debug, PartialEq, Eq)]
enum ReportClass {
    Kind,
    Missing,
    UnknownKey,
    UnknownValue,
    BadLen,
    CustomMissing,
    CustomUnknown,
    Foreign,
    Other,
}

fn class_of_sig(s: &Sig) -> ReportClass {
    match s {
        Sig::On(inner, _) => class_of_sig(inner),
        Sig::Ivk { .. } => ReportClass::Kind,
        Sig::Missing { .. } => ReportClass::Missing,
        Sig::UnknownKey { .. } => ReportClass::UnknownKey,
        Sig::UnknownValue { .. } => ReportClass::UnknownValue,
        Sig::BadLen { .. } => ReportClass::BadLen,
        Sig::Unexpected { contains, .. } => {
            if contains.iter().any(|c| c.starts_with("custom-missing:")) {
                ReportClass::CustomMissing
            } else if contains.iter().any(|c| c.starts_with("custom-unknown:")) {
                ReportClass::CustomUnknown
            } else {
                ReportClass::Other
            }
        }
        Sig::Domain { .. } | Sig::AnyAt { .. } => ReportClass::Other,
        Sig::Foreign { .. } => ReportClass::Foreign,
    }
}

fn class_of_event(e: &Event) -> ReportClass {
    match e {
        Event::Foreign { .. } => ReportClass::Foreign,
        Event::Report { kind, .. } => match kind {
            RKind::IncorrectValueKind { .. } => ReportClass::Kind,
            RKind::MissingField { .. } => ReportClass::Missing,
            RKind::UnknownKey { .. } => ReportClass::UnknownKey,
            RKind::UnknownValue { .. } => ReportClass::UnknownValue,
            RKind::BadSequenceLen { .. } => ReportClass::BadLen,
            RKind::Unexpected { msg } => {
                if msg.starts_with("custom-missing:") {
                    ReportClass::CustomMissing
                } else if msg.starts_with("custom-unknown:") {
                    ReportClass::CustomUnknown
                } else {
                    ReportClass::Other
                }
            }
        },
        _ => unreachable!(),
    }
}

/// Whether two entries of a map payload parse to the same key (then which one
/// wins is the definition of a map, not something the statements fix).
fn has_colliding_map_keys(cat: &Catalogue, ty: &Ty, d: &Doc) -> bool {
    match (ty, d) {
        (Ty::P(t), _) | (Ty::Bx(t), _) | (Ty::Opt(t), _) => has_colliding_map_keys(cat, t, d),
        (Ty::Vec(t) | Ty::HSet(t) | Ty::BSet(t) | Ty::Arr(t, _), Doc::Seq(v)) => {
            v.iter().any(|e| has_colliding_map_keys(cat, t, e))
        }
        (Ty::Tup(ts), Doc::Seq(v)) => ts.iter().zip(v).any(|(t, e)| has_colliding_map_keys(cat, t, e)),
        (Ty::Map { key, val, .. }, Doc::Obj(m)) => {
            let parsed: Vec<String> = m.iter().filter_map(|(k, _)| parse_key(*key, k)).collect();
            let mut s = parsed.clone();
            s.sort();
            s.dedup();
            s.len() != parsed.len() || m.iter().any(|(_, e)| has_colliding_map_keys(cat, val, e))
        }
        (Ty::Item(i), Doc::Obj(m)) => match &cat.items[*i] {
            Item::Struct(s) => m.iter().any(|(k, e)| {
                s.fields.iter().any(|f| !f.skip && field_key(f, s.rename_all) == *k && has_colliding_map_keys(cat, &f.ty, e))
            }),
            _ => false,
        },
        _ => false,
    }
}


fn reference_check(c: &Case, out: &Outcome, cfg: RefCfg, force_ambiguous: bool) -> Result<(), String> {
    if out.panicked.is_some() {
        return Ok(());
    }
    // "the final error holds exactly one report for each fault": what was reported must also be
    // what the returned error holds (and Ok only if nothing was reported)
    check_c01(out)?;
    let mut r = reference(c.cat, c.ty, c.payload);
    r.required.retain(|s| (cfg.report_class)(&class_of_sig(s)));
    r.optional.retain(|s| (cfg.report_class)(&class_of_sig(s)));
    r.calls.retain(|u| (cfg.call_class)(u));
    r.calls_optional.retain(|u| (cfg.call_class)(u));
    let mut filtered = out.clone();
    filtered.events.retain(|ev| match ev {
        Event::Report { .. } | Event::Foreign { .. } => (cfg.report_class)(&class_of_event(ev)),
        Event::UserFn(u) => (cfg.call_class)(u),
        _ => true,
    });
    let amb = force_ambiguous || has_colliding_map_keys(c.cat, c.ty, c.payload);
    check_reference(&filtered, &r, cfg.asp, amb)
}

/// No duplicate keys, integers classified canonically; floats may be non-finite.
fn only_nonfinite_irregular(d: &Doc) -> bool {
    match d {
        Doc::Neg(x) => *x < 0,
        Doc::Seq(v) => v.iter().all(only_nonfinite_irregular),
        Doc::Obj(m) => {
            m.iter().enumerate().all(|(i, (k, v))| !m[..i].iter().any(|(k2, _)| k2 == k) && only_nonfinite_irregular(v))
        }
        _ => true,
    }
}

/// Canonical numbers everywhere; objects may repeat keys.
fn only_duplicate_keys_irregular(d: &Doc) -> bool {
    match d {
        Doc::Neg(x) => *x < 0,
        Doc::Float(f) => f.is_finite(),
        Doc::Seq(v) => v.iter().all(only_duplicate_keys_irregular),
        Doc::Obj(m) => m.iter().all(|(_, v)| only_duplicate_keys_irregular(v)),
        _ => true,
    }
}

fn any_class(_: &ReportClass) -> bool {
    true
}
fn any_call(_: &UserCall) -> bool {
    true
}

pub struct PropSpec {
    pub id: &'static str,
    /// catalogue groups (empty = all)
    pub groups: &'static [&'static str],
    pub scripts: Scripts,
    pub adversarial: bool,
    pub uses_reference: bool,
    pub check: Box<dyn Fn(&Case, &Script, &Outcome, &Outcome) -> Result<(), String> + Sync>,
    pub rule: &'static str,
}

pub fn spec(prop: &str) -> Option<PropSpec> {
    let all: &'static [&'static str] = &[];
    Some(match prop {
        "C01" => PropSpec {
            id: "C01",
            groups: all,
            scripts: Scripts::Tree,
            adversarial: true,
            uses_reference: false,
            check: Box::new(|_, _, out, _| check_c01(out)),
            rule: "states = (catalogue type, payload) pairs: BFS closure of valid base payloads under ≤F injected faults, all small documents over the type's key universe, plus duplicate-key / non-canonical-number payloads through the second value source; per state the decision tree of Continue/Break answers of a recording error type is explored statelessly on the real code (complete up to the leaf bound, else switch-once and ≤d-deviation families). Oracle per execution: Ok ⇒ no report was made; Err ⇒ the returned error holds exactly the ids of all reports made (none dropped, none twice); no id is held twice at any hand-over. An outcome is non-trivial when it fails or yields a non-null value; distinct = distinct (type, value | sorted report list).",
        },
        "C12" => PropSpec {
            id: "C12",
            groups: all,
            scripts: Scripts::Tree,
            adversarial: true,
            uses_reference: false,
            check: Box::new(|_, _, out, _| check_c12(out)),
            rule: "same state space and answer-script exploration as C01 (every execution runs under catch_unwind), including duplicate keys / duplicated tags / non-canonical and non-finite numbers through the second value source; plus documents nested as deep as serde_json accepts (127 containers) into the recursive catalogue types and serde_json::Value, each run in a child process so that a stack overflow is attributed to its input. Finally every base payload of every type usable with the built-in error types, extended with long non-ASCII unknown keys at every object and long / control-character strings at every string leaf, and — through the second value source — with NaN / +inf / -inf at every leaf in turn and at all leaves, is run with JsonError and QueryParamError (their message rendering runs inside deserialize). Oracle: the call returns.",
        },
        "C03" => PropSpec {
            id: "C03",
            groups: all,
            scripts: Scripts::Tree,
            adversarial: true,
            uses_reference: false,
            check: Box::new(|c, s, out, keep| {
                let _ = &c;
                if !c.plain {
                    // of the payloads only the second source can present: non-finite floats into a
                    // serde_json::Value target (the only reports that target makes); its inner frames
                    // are not probed, so the frame rule does not apply
                    if !(only_nonfinite_irregular(c.payload) && contains_json_target(c.cat, c.ty)) {
                        return Ok(());
                    }
                } else {
                    check_c03_frame(out)?;
                }
                check_c03_suffix(out)?;
                check_c03_prefix(out, keep)?;
                if is_all_break(out) || (s.default && s.prefix.is_empty()) {
                    check_c03_failfast(out, keep)?;
                }
                Ok(())
            }),
            rule: "state space as C01 (canonical payloads). For every explored answer script: frame rule (after a Break answered in probe frame X nothing but hand-overs of the returned error happens until X exits), suffix rule (once all remaining answers are Break: no report, visit or user-function call; final error = reports made so far), prefix rule (log up to the first Break identical to the keep-going log), fail-fast corollary (all-Break run returns exactly the first keep-going report). The switch-once family C^k B^ω is always complete for every k up to the keep-going decision count. Finally the built-in always-stop error types: for every payload of every type usable with them, JsonError and QueryParamError fail iff the keep-going run reports something and return the description of its *first* report (including foreign errors that custom missing-field / unknown-key functions and try_from / validate hand to them).",
        },
        "C04" => PropSpec {
            id: "C04",
            groups: all,
            scripts: Scripts::Tree,
            adversarial: true,
            uses_reference: false,
            check: Box::new(|c, _, out, _| check_c04_with(c.payload, out, c.tag_exempt, !c.plain)),
            rule: "state space as C01 (canonical payloads with distinct values at sibling positions; for the duplicate-key payloads of the second source only key presence / absence and location existence are checked). For every execution under every explored answer script, every report is checked against the payload itself: the location resolves; kind/arity `actual` equals the value found there and is of a non-accepted kind / wrong length; a missing field is absent there; an unknown key is present there and not accepted; an unknown value is the string there; every hand-over location is the position of the direct child frame that failed (from the probe bracket structure) and a prefix of every report handed over; a report a container made below itself in its own frame (a failed field conversion held by a field-level error type) is never handed over at the container's own position; user functions receive their container's location.",
        },
        "C02" => {
            let cfg = RefCfg { asp: Aspects { status: true, value: false, reports: true, visited: true, calls: false }, report_class: any_class, call_class: any_call };
            PropSpec {
                id: "C02",
                groups: all,
                scripts: Scripts::KeepOnly,
                adversarial: true,
                uses_reference: true,
                check: Box::new(move |c, _, out, _| {
                    if !c.plain {
                        // of the payloads only the second source can present, the reference covers
                        // non-finite floats into a serde_json::Value target (a leaf it cannot hold)
                        if !(only_nonfinite_irregular(c.payload) && contains_json_target(c.cat, c.ty)) {
                            return Ok(());
                        }
                    }
                    reference_check(c, out, cfg, false)
                }),
                rule: "states = (catalogue type, payload) as C01 (canonical payloads, both value sources); one keep-going execution of the real code per state and source. Oracle: the multiset of reports (kind, location, detail) satisfies required ⊆ observed ⊆ required ⊎ optional against the reference interpreter of the documented semantics, and the multiset of examined positions (probe Enter events) equals the interpreter's: every field, element and map entry is examined unless hidden by one of the four structural causes.",
            }
        }
        "C06" => {
            let cfg = RefCfg { asp: Aspects::ALL, report_class: any_class, call_class: any_call };
            PropSpec {
                id: "C06",
                groups: &["F", "D", "E", "H"],
                scripts: Scripts::KeepOnly,
                adversarial: false,
                uses_reference: true,
                check: Box::new(move |c, _, out, _| reference_check(c, out, cfg, false)),
                rule: "states = (container shape over several element types incl. nested containers and derived structs, payload): all single/double fault edits (drop/duplicate/append element → arity ±1, wrong kinds, unparseable and colliding map keys, comma-separated strings) of valid payloads plus all small documents. Oracle (reference interpreter): value (order, arity, None ⇔ null, set and map semantics, CS segments), BadSequenceLen with the whole sequence and the arity, unparseable key named and the call fails.",
            }
        }
        "C07" => {
            fn cls(c: &ReportClass) -> bool {
                !matches!(c, ReportClass::Foreign)
            }
            let cfg = RefCfg { asp: Aspects { status: true, value: true, reports: true, visited: true, calls: false }, report_class: cls, call_class: any_call };
            PropSpec {
                id: "C07",
                groups: &["A", "B1", "B2", "B3", "B4", "B5", "B6", "C2", "G", "H"],
                scripts: Scripts::KeepOnly,
                adversarial: false,
                uses_reference: true,
                check: Box::new(move |c, _, out, _| reference_check(c, out, cfg, false)),
                rule: "states = (derived struct / struct-like variant with rename, rename_all at container and variant level, skip/default/from in any declaration order, seven identifier shapes; payload over the key universe: identifier, camelCase, lowercase, renamed, near-misses incl. case flips, `_`-prefixed and whitespace-padded keys, skipped names). Oracle: the dumped value (keyed by Rust identifiers) equals the reference projection computed with independently derived effective keys; examined positions show which entry fed which field.",
            }
        }
        "C08" => {
            fn cls(c: &ReportClass) -> bool {
                matches!(c, ReportClass::Missing | ReportClass::CustomMissing)
            }
            fn calls(u: &UserCall) -> bool {
                matches!(u, UserCall::CustomMissing { .. } | UserCall::Map { .. })
            }
            fn calls_missing(u: &UserCall) -> bool {
                matches!(u, UserCall::CustomMissing { .. })
            }
            let cfg = RefCfg { asp: Aspects::ALL, report_class: cls, call_class: calls };
            // duplicate keys (second source only): which value wins is not fixed, but a key that
            // occurs — however often — is present, so the missing-field reports are still determined
            let cfg_dup = RefCfg { asp: Aspects { status: false, value: false, reports: true, visited: false, calls: true }, report_class: cls, call_class: calls_missing };
            PropSpec {
                id: "C08",
                groups: &["A", "B1", "B2", "B4", "B5", "B6", "C2", "G", "H"],
                scripts: Scripts::KeepOnly,
                adversarial: true,
                uses_reference: true,
                check: Box::new(move |c, _, out, _| {
                    if c.plain {
                        reference_check(c, out, cfg, false)
                    } else if only_duplicate_keys_irregular(c.payload) {
                        reference_check(c, out, cfg_dup, true)
                    } else {
                        Ok(())
                    }
                }),
                rule: "states = (derived type mixing default / default = expr / skip / missing_field_error / map / Option fields; payload with any subset of keys deleted, nulled or corrupted up to the fault bound, plus small documents). Oracle: MissingField(effective key) at the container's location exactly for non-skipped, non-defaulted, absent keys (null = present; present-but-invalid not additionally missing); the custom function called exactly then with exactly (key, location); defaults taken iff absent with map on top; a skipped field never examined (no probe Enter under any of its names).",
            }
        }
        "C09" => {
            fn cls(c: &ReportClass) -> bool {
                matches!(c, ReportClass::UnknownKey | ReportClass::CustomUnknown)
            }
            fn calls(u: &UserCall) -> bool {
                matches!(u, UserCall::CustomUnknown { .. })
            }
            let cfg = RefCfg { asp: Aspects { status: false, value: false, reports: true, visited: false, calls: true }, report_class: cls, call_class: calls };
            PropSpec {
                id: "C09",
                groups: &["A", "B1", "B3", "B4", "B5", "B6", "C2", "D", "G", "H"],
                scripts: Scripts::KeepOnly,
                adversarial: true,
                uses_reference: true,
                // duplicate members (second source only): every occurrence of a known key is known,
                // every occurrence of an unknown key is unknown, a repeated tag member is an
                // ordinary entry of the selected variant
                check: Box::new(move |c, _, out, _| {
                    if c.plain || only_duplicate_keys_irregular(c.payload) {
                        reference_check(c, out, cfg, true)
                    } else {
                        Ok(())
                    }
                }),
                rule: "(a) states = (derived struct / tagged enum with and without deny_unknown_fields, default and custom function, skipped / renamed fields; payload extended with keys of the key universe: near-misses, `_`-prefixed, padded, names of skipped fields, the tag key). Oracle: each non-effective key yields exactly one UnknownKey(key, accepted = effective keys of non-skipped fields in declaration order) at the container's location, or one call of the custom function with exactly (key, accepted, location); known keys and the tag never. (b) for every type and every object position governed by a struct / tagged enum without the attribute, every base/faulty payload p and every set of ≤ 2 extra members from the key universe × 4 values: outcome(p) = outcome(p ⊎ extras) (value, report multiset, user calls; reports at an ancestor quoting the enclosing payload are compared modulo the quoted value) — self-relative, no model.",
            }
        }
        "C10" => {
            let cfg = RefCfg { asp: Aspects { status: true, value: true, reports: true, visited: true, calls: false }, report_class: any_class, call_class: any_call };
            let cfg_dup = RefCfg { asp: Aspects { status: true, value: false, reports: true, visited: true, calls: false }, report_class: any_class, call_class: any_call };
            PropSpec {
                id: "C10",
                groups: &["C1", "C2", "D", "G", "H"],
                scripts: Scripts::KeepOnly,
                adversarial: true,
                uses_reference: true,
                // a repeated tag member (second source only): the variant is selected by the member
                // `Map::remove` hands out (the first one, for the second source); the others are
                // ordinary entries of that variant. Which of two values of a repeated *field* wins
                // is not fixed: status, reports and examined positions are compared, not the value.
                check: Box::new(move |c, _, out, _| {
                    if c.plain {
                        reference_check(c, out, cfg, false)
                    } else if only_duplicate_keys_irregular(c.payload) {
                        reference_check(c, out, cfg_dup, true)
                    } else {
                        Ok(())
                    }
                }),
                rule: "states = (unit-only and internally tagged enums with renamed variants, rename_all, 1–6 variants, variants sharing field names with different types, tag colliding with / near a field name, nested in containers; payload: every variant name, identifier, case variation, padded and truncated near-miss, non-string tag of every kind, missing tag, faults in the variant's fields). Oracle: variant selected (visible in the dump), the three tag reports with their locations, UnknownValue with the full ordered name list. Names as a language: every string over [a-z0-9] of length ≤ 4 (thorough ≤ 5), and of length 5 (6) starting with a..f, into a generated unit enum with 4096 variants (so that even a 32-bit digest of the name collides with one of the ~10^7 strings), of length ≤ 4 (≤ 5) into the 40-variant unit enum and of length ≤ 3 (≤ 4) as the tag of the 23-variant tagged enum: accepted iff it is one of the names, and then selects that variant.",
            }
        }
        "C11" => {
            fn cls(c: &ReportClass) -> bool {
                matches!(c, ReportClass::Foreign)
            }
            let cfg = RefCfg { asp: Aspects { status: false, value: true, reports: true, visited: false, calls: true }, report_class: cls, call_class: any_call };
            PropSpec {
                id: "C11",
                groups: &["A", "B2", "C1", "C2", "E", "G", "H"],
                scripts: Scripts::Tree,
                adversarial: false,
                uses_reference: true,
                check: Box::new(move |c, _, out, _| {
                    check_c11_rules(c, out)?;
                    if out.answers().iter().all(|b| !*b) {
                        reference_check(c, out, cfg, false)?;
                    }
                    Ok(())
                }),
                rule: "states = (catalogue type using from / try_from by value and by reference / map / validate / field-level error = RecB at field and container level; payload making any subset of the stages fail). Keep-going run: user-function calls (name, argument, outcome), foreign reports and result value equal the reference interpreter's. Every explored answer script: a conversion function runs only right after its intermediate value's probe exited ok; map runs only when nothing was reported in its container; validate at most once per container, only with nothing reported in it; a ConvErr/ValErr report directly follows the user function that failed; each RecB error is handed to RecA exactly once.",
            }
        }
        _ => return None,
    })
}

pub fn run_catalogue(e: &Engine, prop: &str) -> i32 {
    let sp = spec(prop).expect("catalogue property");
    if let Err(m) = self_check() {
        eprintln!("MACHINERY ERROR: reference interpreter self-check failed: {m}");
        return 2;
    }
    let rec = Recorder::new(sp.id, e.tier);
    let groups = sp.groups;
    let select = move |r: &Root| group_in(r, groups);
    // history independence over the same types first: the statement holds for a call whatever was
    // deserialized before it on the same thread. If it does not, the sweep below (many calls per
    // worker thread) has no defined expected outcome and is not run.
    crate::history::run_history(e, &rec, sp.id, &select, matches!(sp.id, "C03" | "C12"));
    if rec.violation_count() > 0 {
        rec.not_exhaustive();
        let mut assume: Vec<&str> = ASSUME_COMMON.to_vec();
        assume.push("the per-payload sweep was skipped: calls depend on earlier calls of the same thread");
        return rec.finish("model_checking", sp.rule, &assume);
    }
    e.sweep(
        &SweepCfg { property: sp.id, select: &select, scripts: sp.scripts, sources: &[Src::Json, Src::Ov], adversarial: sp.adversarial, check: &*sp.check },
        &rec,
    );
    if sp.id == "C10" {
        crate::names::run_name_sweep(e, &rec);
    }
    if sp.id == "C12" {
        crate::deep::run_deep(e, &rec);
        crate::deep::run_builtin_totality(e, &rec);
    }
    if sp.id == "C09" {
        crate::invariance::run_extras(e, &rec);
    }
    if sp.id == "C03" {
        // last clause of C03: the built-in always-stop error types return exactly the first report
        // of the keep-going run (the comparison C14 makes, here over the same payload space)
        let ks = crate::messages::first_report_pass(e, &rec, "C03");
        rec.set_extra("always_stop_builtin_error_types_(error type:kind:depth)", serde_json::json!(ks));
    }
    if sp.id == "C06" {
        run_sizes(e, &rec);
    }
    let mut assume: Vec<&str> = ASSUME_COMMON.to_vec();
    if sp.uses_reference {
        assume.extend(ASSUME_REF);
    }
    rec.finish("model_checking", sp.rule, &assume)
}

/// Self-relative rules of C11, valid under every answer script.
fn check_c11_rules(_c: &Case, out: &Outcome) -> Result<(), String> {
    if out.panicked.is_some() {
        return Ok(());
    }
    let mut reports_so_far = 0usize;
    let mut validate_calls = 0usize;
    let fr = frames(&out.events);
    let mut last_exit: Option<(usize, bool, usize)> = None; // (event idx, ok, depth)
    let mut recb_ids_handed: Vec<u32> = vec![];
    let mut recb_ids_made: Vec<u32> = vec![];
    // per frame: validate at most once
    let mut validate_frames: Vec<usize> = vec![];
    for (i, e) in out.events.iter().enumerate() {
        match e {
            Event::Report { id, on, .. } | Event::Foreign { id, on, .. } => {
                reports_so_far += 1;
                if *on == 1 {
                    recb_ids_made.push(*id);
                }
                if let Event::Foreign { src, .. } = e {
                    // must directly follow the user function that failed
                    let prev = out.events[..i].iter().rev().find(|x| !matches!(x, Event::Exit { .. }));
                    let ok = match (src, prev) {
                        (ForeignSrc::Conv { .. }, Some(Event::UserFn(UserCall::Conv { ok: false, .. })))
                        | (ForeignSrc::Conv { .. }, Some(Event::UserFn(UserCall::ContainerConv { ok: false, .. })))
                        | (ForeignSrc::Conv { .. }, Some(Event::UserFn(UserCall::CustomMissing { .. })))
                        | (ForeignSrc::Conv { .. }, Some(Event::UserFn(UserCall::CustomUnknown { .. })))
                        | (ForeignSrc::Validate { .. }, Some(Event::UserFn(UserCall::Validate { ok: false, .. }))) => true,
                        _ => false,
                    };
                    if !ok {
                        return Err(format!("foreign failure {e:?} is not the result of the user function that just ran ({prev:?})"));
                    }
                }
            }
            Event::HandOver { from, into, other_ids, .. } => {
                if *from == 1 && *into == 0 {
                    for id in other_ids {
                        if recb_ids_handed.contains(id) {
                            return Err(format!("field-level error (report {id}) handed to the container's error type twice"));
                        }
                        recb_ids_handed.push(*id);
                    }
                }
            }
            Event::Exit { ok, .. } => last_exit = Some((i, *ok, fr.stack_at[i].len())),
            Event::UserFn(u) => {
                // a failure returned by try_from / validate is handed to the error type straight away
                // (whatever its type: a foreign error, or the container's own error type built inside
                // the function), at the container's location for validate
                let failed_at: Option<Option<&Loc>> = match u {
                    UserCall::Conv { ok: false, .. } | UserCall::ContainerConv { ok: false, .. } => Some(None),
                    UserCall::Validate { ok: false, loc, .. } => Some(Some(loc)),
                    _ => None,
                };
                if let Some(want_loc) = failed_at {
                    let mut inside: Vec<u32> = vec![];
                    let mut handed = false;
                    for x in &out.events[i + 1..] {
                        match x {
                            Event::Report { id, answer_ignored: true, .. } => inside.push(*id),
                            Event::Foreign { loc, .. } => {
                                handed = want_loc.map(|l| l == loc).unwrap_or(true);
                                break;
                            }
                            Event::HandOver { other_ids, loc, .. } => {
                                handed = inside.iter().all(|id| other_ids.contains(id)) && !inside.is_empty() && want_loc.map(|l| l == loc).unwrap_or(true);
                                break;
                            }
                            _ => break,
                        }
                    }
                    if !handed {
                        return Err(format!("the failure returned by {u:?} was not handed to the error type (at the container's location) right after the function returned"));
                    }
                }
                match u {
                UserCall::Conv { arg, fn_name, .. } => {
                    // directly after the intermediate value's probe exited ok
                    let prev = i.checked_sub(1).map(|j| &out.events[j]);
                    match (prev, last_exit) {
                        // an `Option` intermediate built from `null` opens no probe frame
                        _ if *arg == crate::probe::NONE_ARG => {}
                        (Some(Event::Exit { ok: true, .. }), Some((j, true, _))) if j + 1 == i => {
                            // the value: last leaf dump is not logged; check via the Enter kind instead
                            let _ = (arg, fn_name);
                        }
                        _ => {
                            return Err(format!(
                                "conversion function {fn_name} ran without a successfully deserialized intermediate value right before it (previous event {prev:?})"
                            ))
                        }
                    }
                }
                UserCall::ContainerConv { .. } => {
                    let prev = i.checked_sub(1).map(|j| &out.events[j]);
                    if !matches!(prev, Some(Event::Exit { ok: true, .. })) {
                        return Err(format!("container conversion ran without a successful intermediate value (previous event {prev:?})"));
                    }
                }
                UserCall::Map { .. } => {
                    // map runs on the fields of a container that succeeded: nothing was reported
                    // inside the current frame
                    let frame_start = fr.stack_at[i].last().copied().unwrap_or(0);
                    let reported_in_frame = out.events[frame_start..i].iter().any(|x| x.report_id().is_some());
                    if reported_in_frame {
                        return Err("map function ran although the container had already reported a failure".into());
                    }
                }
                UserCall::Validate { .. } => {
                    validate_calls += 1;
                    let frame_start = fr.stack_at[i].last().copied().unwrap_or(0);
                    if validate_frames.contains(&frame_start) {
                        return Err("validate ran twice for the same container".into());
                    }
                    validate_frames.push(frame_start);
                    let reported_in_frame = out.events[frame_start..i].iter().any(|x| x.report_id().is_some());
                    if reported_in_frame {
                        return Err("validate ran although a failure had been reported in its container".into());
                    }
                }
                _ => {}
                }
            }
            _ => {}
        }
    }
    let _ = (reports_so_far, validate_calls);
    // every RecB report that ends in the final error went through exactly one hand-over
    if let Err(ids) = &out.result {
        for id in &recb_ids_made {
            if ids.contains(id) && !recb_ids_handed.contains(id) {
                return Err(format!("field-level report {id} reached the final error without a hand-over to the container's error type"));
            }
        }
    }
    Ok(())
}



/// C06, large containers: every length of a list that crosses the usual buffer
/// and pre-allocation thresholds, all elements valid, and with a fault at the
/// last position; value / report compared with the reference interpreter.
pub fn run_sizes(e: &Engine, rec: &Recorder) {
    use mc_desc::emit::ty_str;
    use serde_json::json;
    let mut sizes: Vec<usize> = (0..=40).collect();
    for c in [64usize, 128, 256, 512, 1024, 2048, 4096, 8192, 16384, 32768, 65536] {
        sizes.extend([c - 1, c, c + 1]);
    }
    if e.tier == Tier::Thorough {
        sizes.extend([100_000, 131_071, 131_072, 131_073, 1_000_000]);
    }
    let wanted = [
        "P<Vec<P<u8>>>",
        "P<HashSet<P<u8>>>",
        "P<BTreeSet<P<u8>>>",
        "P<BTreeMap<String, P<u8>>>",
        "P<HashMap<String, P<u8>>>",
        "P<CS<u8>>",
        "P<::serde_json::Value>",
        "P<Vec<P<String>>>",
    ];
    let mut states = 0u64;
    let mut execs = 0u64;
    for w in wanted {
        let Some(ri) = (0..e.cat.roots.len()).find(|i| ty_str(&e.cat.roots[*i].ty, e.cat) == w) else { continue };
        let root = &e.cat.roots[ri];
        let entry = &e.entries[ri];
        for &n in &sizes {
            let elem = |i: usize| -> Doc {
                if w.contains("String>>>") && !w.contains("Map") {
                    Doc::Str(format!("s{i}"))
                } else {
                    Doc::Int((i % 200) as u64)
                }
            };
            let mut payloads: Vec<Doc> = vec![];
            if w.contains("Map<") {
                let m: Vec<(String, Doc)> = (0..n).map(|i| (format!("k{i:07}"), elem(i))).collect();
                payloads.push(Doc::Obj(m.clone()));
                if n > 0 {
                    let mut m2 = m;
                    m2[n - 1].1 = Doc::Bool(true);
                    payloads.push(Doc::Obj(m2));
                }
            } else if w.contains("CS<") {
                let parts: Vec<String> = (0..n).map(|i| (i % 200).to_string()).collect();
                payloads.push(Doc::Str(parts.join(",")));
                if n > 0 {
                    let mut p2 = parts;
                    p2[n - 1] = "x".into();
                    payloads.push(Doc::Str(p2.join(",")));
                }
            } else {
                let v: Vec<Doc> = (0..n).map(elem).collect();
                payloads.push(Doc::Seq(v.clone()));
                if n > 0 && !w.contains("serde_json") {
                    let mut v2 = v;
                    v2[n - 1] = Doc::Bool(true);
                    payloads.push(Doc::Seq(v2));
                    // every element faulty (as many reports as elements), pairwise distinct
                    if n <= 4097 {
                        payloads.push(Doc::Seq((0..n).map(|i| Doc::Float(i as f64 + 0.5)).collect()));
                    }
                }
            }
            for doc in payloads {
                let doc = doc.canonical();
                states += 1;
                for src in [Src::Json, Src::Ov] {
                    let out = execute(entry, src, &doc, &Script::keep_going());
                    execs += 1;
                    let r = reference(e.cat, &root.ty, &doc);
                    let verdict = check_c01(&out).and_then(|_| check_reference(&out, &r, Aspects { status: true, value: true, reports: true, visited: false, calls: false }, false));
                    if let Err(m) = verdict {
                        let short: String = m.chars().take(400).collect();
                        rec.violation(Violation {
                            property: "C06".into(),
                            subject: format!("{w} with {n} elements"),
                            message: format!("{short}\n  payload: {} elements / entries / segments (valid values i % 200{}), source {src:?}", n, if r.value.is_none() { ", last one faulty" } else { "" }),
                            replay: json!({"kind": "sizes", "type": w, "elements": n, "last_faulty": r.value.is_none(), "source": format!("{src:?}")}),
                        });
                    }
                }
            }
        }
    }
    rec.add_counts(states, states, execs);
    rec.set_extra("large_container_lengths", json!(sizes));
    rec.set_extra("large_container_targets", json!(wanted));
}
