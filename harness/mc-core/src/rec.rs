//! The scripted, recording error types — the *environment* of one execution —
//! and the thread-local execution log (DESIGN.md §3.2).

use crate::doc::*;
use deserr::{DeserializeError, ErrorKind, IntoValue, MergeWithError, ValuePointerRef};
use std::cell::RefCell;
use std::ops::ControlFlow;

/// Owned copy of an `ErrorKind`.
#[derive(Clone, Debug, PartialEq)]
pub enum RKind {
    IncorrectValueKind { actual: Doc, accepted: Vec<Kind> },
    MissingField { field: String },
    UnknownKey { key: String, accepted: Vec<String> },
    UnknownValue { value: String, accepted: Vec<String> },
    BadSequenceLen { actual: Doc, expected: usize },
    Unexpected { msg: String },
}

impl RKind {
    pub fn name(&self) -> &'static str {
        match self {
            RKind::IncorrectValueKind { .. } => "IncorrectValueKind",
            RKind::MissingField { .. } => "MissingField",
            RKind::UnknownKey { .. } => "UnknownKey",
            RKind::UnknownValue { .. } => "UnknownValue",
            RKind::BadSequenceLen { .. } => "BadSequenceLen",
            RKind::Unexpected { .. } => "Unexpected",
        }
    }
}

#[derive(Clone, Debug, PartialEq)]
pub enum ForeignSrc {
    /// error returned by a conversion function of the library
    Conv { fn_name: String, arg: Doc },
    /// error returned by `validate_sum`
    Validate { sum: i128 },
}

#[derive(Clone, Debug, PartialEq)]
pub enum UserCall {
    /// field-level conversion functions
    Conv { fn_name: &'static str, arg: u8, ok: bool },
    /// container-level conversion function of item `item`
    ContainerConv { item: usize, by_ref: bool, arg: Doc, ok: bool },
    Map { decl: &'static str, arg: Doc },
    Validate { value: Doc, loc: Loc, ok: bool },
    CustomMissing { key: String, loc: Loc },
    CustomUnknown { key: String, accepted: Vec<String>, loc: Loc },
}

#[derive(Clone, Debug, PartialEq)]
pub enum Event {
    /// `E::error` was called: a *report*.
    Report { id: u32, on: u8, kind: RKind, loc: Loc, self_ids: Vec<u32>, brk: bool, answer_ignored: bool },
    /// `E::merge::<ConvErr|ValErr>` was called: a *report* of a foreign error.
    Foreign { id: u32, on: u8, src: ForeignSrc, loc: Loc, self_ids: Vec<u32>, brk: bool },
    /// `E::merge::<Rec*>` was called: an already built error is handed over; not a report.
    HandOver { from: u8, into: u8, other_ids: Vec<u32>, self_ids: Vec<u32>, loc: Loc, brk: bool },
    Enter { loc: Loc, kind: Kind },
    Exit { loc: Loc, ok: bool },
    UserFn(UserCall),
}

impl Event {
    /// Whether this event consumed a position of the answer script.
    pub fn is_decision(&self) -> bool {
        match self {
            Event::Report { answer_ignored, .. } => !answer_ignored,
            Event::Foreign { .. } | Event::HandOver { .. } => true,
            _ => false,
        }
    }
    pub fn brk(&self) -> bool {
        match self {
            Event::Report { brk, .. } | Event::Foreign { brk, .. } | Event::HandOver { brk, .. } => *brk,
            _ => false,
        }
    }
    pub fn report_id(&self) -> Option<u32> {
        match self {
            Event::Report { id, .. } | Event::Foreign { id, .. } => Some(*id),
            _ => None,
        }
    }
    pub fn loc(&self) -> Option<&Loc> {
        match self {
            Event::Report { loc, .. }
            | Event::Foreign { loc, .. }
            | Event::HandOver { loc, .. }
            | Event::Enter { loc, .. }
            | Event::Exit { loc, .. } => Some(loc),
            Event::UserFn(_) => None,
        }
    }
}

/// An answer script: decision `i` gets `prefix[i]`, later ones `default`
/// (`true` = Break).
#[derive(Clone, Debug, PartialEq, Eq, Hash)]
pub struct Script {
    pub prefix: Vec<bool>,
    pub default: bool,
}

impl Script {
    pub fn keep_going() -> Script {
        Script { prefix: vec![], default: false }
    }
    pub fn fail_fast() -> Script {
        Script { prefix: vec![], default: true }
    }
    /// `C^k B^ω`
    pub fn switch_at(k: usize) -> Script {
        Script { prefix: vec![false; k], default: true }
    }
    pub fn text(&self) -> String {
        let p: String = self.prefix.iter().map(|b| if *b { 'B' } else { 'C' }).collect();
        format!("{p}{}*", if self.default { 'B' } else { 'C' })
    }
    pub fn parse(s: &str) -> Script {
        let s = s.trim_end_matches('*');
        let mut v: Vec<bool> = s.chars().map(|c| c == 'B').collect();
        let default = v.pop().expect("script text has a default");
        Script { prefix: v, default }
    }
}

#[derive(Default)]
pub struct Exec {
    pub events: Vec<Event>,
    pub script: Vec<bool>,
    pub default: bool,
    pub decisions: usize,
    pub next_id: u32,
    pub in_user_fn: u32,
    pub active: bool,
}

thread_local! {
    pub static EXEC: RefCell<Exec> = RefCell::new(Exec::default());
}

pub fn begin(script: &Script) {
    EXEC.with(|e| {
        let mut e = e.borrow_mut();
        e.events.clear();
        e.script = script.prefix.clone();
        e.default = script.default;
        e.decisions = 0;
        e.next_id = 0;
        e.in_user_fn = 0;
        e.active = true;
    })
}

pub fn end() -> (Vec<Event>, usize) {
    EXEC.with(|e| {
        let mut e = e.borrow_mut();
        e.active = false;
        (std::mem::take(&mut e.events), e.decisions)
    })
}

pub fn log(ev: Event) {
    EXEC.with(|e| {
        let mut e = e.borrow_mut();
        if e.active {
            e.events.push(ev)
        }
    })
}

fn fresh_id() -> u32 {
    EXEC.with(|e| {
        let mut e = e.borrow_mut();
        e.next_id += 1;
        e.next_id
    })
}

/// Takes the next answer of the script (`true` = Break) unless inside a user
/// function of the library, whose answers are discarded by user code.
fn next_answer() -> (bool, bool) {
    EXEC.with(|e| {
        let mut e = e.borrow_mut();
        if e.in_user_fn > 0 {
            return (false, true);
        }
        let i = e.decisions;
        e.decisions += 1;
        let a = if i < e.script.len() { e.script[i] } else { e.default };
        (a, false)
    })
}

pub fn enter_user_fn() {
    EXEC.with(|e| e.borrow_mut().in_user_fn += 1)
}
pub fn leave_user_fn() {
    EXEC.with(|e| e.borrow_mut().in_user_fn -= 1)
}

/// Recording error type. Holds only the ids of the reports it was handed; it is
/// deliberately not `Clone`, so that only the code under test can duplicate or
/// drop a report.
#[derive(Debug, PartialEq, Eq)]
pub struct Rec<const TAG: u8> {
    pub ids: Vec<u32>,
}

/// The container error type.
pub type RecA = Rec<0>;
/// A distinct field-level error type (`#[deserr(error = RecB)]`).
pub type RecB = Rec<1>;

fn cf<const TAG: u8>(ids: Vec<u32>, brk: bool) -> ControlFlow<Rec<TAG>, Rec<TAG>> {
    if brk {
        ControlFlow::Break(Rec { ids })
    } else {
        ControlFlow::Continue(Rec { ids })
    }
}

pub fn copy_kind<V: IntoValue>(k: ErrorKind<V>) -> RKind {
    match k {
        ErrorKind::IncorrectValueKind { actual, accepted } => RKind::IncorrectValueKind {
            actual: doc_of_value(actual),
            accepted: accepted.iter().map(|k| Kind::from_deserr(*k)).collect(),
        },
        ErrorKind::MissingField { field } => RKind::MissingField { field: field.to_string() },
        ErrorKind::UnknownKey { key, accepted } => RKind::UnknownKey {
            key: key.to_string(),
            accepted: accepted.iter().map(|s| s.to_string()).collect(),
        },
        ErrorKind::UnknownValue { value, accepted } => RKind::UnknownValue {
            value: value.to_string(),
            accepted: accepted.iter().map(|s| s.to_string()).collect(),
        },
        ErrorKind::BadSequenceLen { actual, expected } => {
            RKind::BadSequenceLen { actual: doc_of_seq::<V>(actual), expected }
        }
        ErrorKind::Unexpected { msg } => RKind::Unexpected { msg },
    }
}

impl<const TAG: u8> DeserializeError for Rec<TAG> {
    fn error<V: IntoValue>(
        self_: Option<Self>,
        error: ErrorKind<V>,
        location: ValuePointerRef,
    ) -> ControlFlow<Self, Self> {
        let kind = copy_kind(error);
        let loc = loc_from_ref(location);
        let self_ids = self_.map(|s| s.ids).unwrap_or_default();
        let id = fresh_id();
        let (brk, answer_ignored) = next_answer();
        let mut ids = self_ids.clone();
        ids.push(id);
        log(Event::Report { id, on: TAG, kind, loc, self_ids, brk, answer_ignored });
        cf(ids, brk)
    }
}

impl<const TAG: u8, const OTHER: u8> MergeWithError<Rec<OTHER>> for Rec<TAG> {
    fn merge(self_: Option<Self>, other: Rec<OTHER>, merge_location: ValuePointerRef) -> ControlFlow<Self, Self> {
        let loc = loc_from_ref(merge_location);
        let self_ids = self_.map(|s| s.ids).unwrap_or_default();
        let (brk, _) = next_answer();
        let mut ids = self_ids.clone();
        ids.extend(other.ids.iter().copied());
        log(Event::HandOver { from: OTHER, into: TAG, other_ids: other.ids, self_ids, loc, brk });
        cf(ids, brk)
    }
}

/// Foreign error returned by the conversion functions of the library.
#[derive(Debug, Clone, PartialEq)]
pub struct ConvErr {
    pub fn_name: String,
    pub arg: Doc,
}
impl std::fmt::Display for ConvErr {
    fn fmt(&self, f: &mut std::fmt::Formatter<'_>) -> std::fmt::Result {
        write!(f, "conversion {} rejected {}", self.fn_name, self.arg.text())
    }
}
impl std::error::Error for ConvErr {}

/// Foreign error returned by `validate_sum`.
#[derive(Debug, Clone, PartialEq)]
pub struct ValErr {
    pub sum: i128,
}
impl std::fmt::Display for ValErr {
    fn fmt(&self, f: &mut std::fmt::Formatter<'_>) -> std::fmt::Result {
        write!(f, "validation failed: sum {} is a multiple of three", self.sum)
    }
}
impl std::error::Error for ValErr {}

fn foreign<const TAG: u8>(
    self_: Option<Rec<TAG>>,
    src: ForeignSrc,
    merge_location: ValuePointerRef,
) -> ControlFlow<Rec<TAG>, Rec<TAG>> {
    let loc = loc_from_ref(merge_location);
    let self_ids = self_.map(|s| s.ids).unwrap_or_default();
    let id = fresh_id();
    let (brk, _) = next_answer();
    let mut ids = self_ids.clone();
    ids.push(id);
    log(Event::Foreign { id, on: TAG, src, loc, self_ids, brk });
    cf(ids, brk)
}

impl<const TAG: u8> MergeWithError<ConvErr> for Rec<TAG> {
    fn merge(self_: Option<Self>, other: ConvErr, merge_location: ValuePointerRef) -> ControlFlow<Self, Self> {
        foreign(self_, ForeignSrc::Conv { fn_name: other.fn_name, arg: other.arg }, merge_location)
    }
}

impl<const TAG: u8> MergeWithError<ValErr> for Rec<TAG> {
    fn merge(self_: Option<Self>, other: ValErr, merge_location: ValuePointerRef) -> ControlFlow<Self, Self> {
        foreign(self_, ForeignSrc::Validate { sum: other.sum }, merge_location)
    }
}

/// An error type without any bookkeeping (always stops, holds nothing): for sweeps whose verdict is
/// only "accepted or refused" and whose volume forbids logging every report.
#[derive(Debug, Clone, Copy, PartialEq, Eq)]
pub struct Cheap;
impl deserr::DeserializeError for Cheap {
    fn error<V: deserr::IntoValue>(_self_: Option<Self>, _error: deserr::ErrorKind<V>, _location: ValuePointerRef) -> ControlFlow<Self, Self> {
        ControlFlow::Break(Cheap)
    }
}
impl MergeWithError<Cheap> for Cheap {
    fn merge(_self_: Option<Self>, other: Cheap, _merge_location: ValuePointerRef) -> ControlFlow<Self, Self> {
        ControlFlow::Break(other)
    }
}
