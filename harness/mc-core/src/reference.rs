//! Reference interpreter: the documented semantics of deserr in executable
//! form (DESIGN.md §4.2), under the keep-going policy.  It is deliberately
//! order-insensitive: it produces *multisets* of expected reports, visits and
//! user-function calls, and the value.  It is written from the property
//! statements and the book, not from the code under test; effective keys are
//! computed here, independently of the derive.

use crate::doc::*;
use crate::probe::{BUMP_CV, BUMP_U8, FROM_INC, FROM_REF, TRY_EVEN, TRY_REF};
use crate::rec::*;
use crate::scalar::*;
use mc_desc::*;
use std::collections::BTreeSet;

#[derive(Clone, Debug, PartialEq)]
pub enum Sig {
    Ivk { loc: Loc, actual: Doc, accepted: BTreeSet<Kind> },
    Missing { loc: Loc, field: String },
    UnknownKey { loc: Loc, key: String, accepted: Vec<String> },
    UnknownValue { loc: Loc, value: String, accepted: Vec<String> },
    BadLen { loc: Loc, actual: Doc, expected: usize },
    /// an `Unexpected` report whose message contains all the given substrings
    Unexpected { loc: Loc, contains: Vec<String> },
    /// a scalar domain error (an `Unexpected` report checked by `domain_message_ok`)
    Domain { loc: Loc, dom: Domain },
    /// any report at `loc` (a tag naming no variant)
    AnyAt { loc: Loc },
    /// a conversion / validation failure merged into error type `on` (0 = the container's RecA,
    /// 1 = a field-level RecB)
    Foreign { loc: Loc, src: ForeignSrc, on: u8 },
    /// the inner expectation, made on error type `on` (0 = the container's RecA, 1 = the RecB of a
    /// field with `error = RecB`, which governs everything below that field)
    On(Box<Sig>, u8),
}

impl Sig {
    pub fn loc(&self) -> &Loc {
        match self {
            Sig::Ivk { loc, .. }
            | Sig::Missing { loc, .. }
            | Sig::UnknownKey { loc, .. }
            | Sig::UnknownValue { loc, .. }
            | Sig::BadLen { loc, .. }
            | Sig::Unexpected { loc, .. }
            | Sig::Domain { loc, .. }
            | Sig::AnyAt { loc }
            | Sig::Foreign { loc, .. } => loc,
            Sig::On(inner, _) => inner.loc(),
        }
    }

    /// Whether an observed report event satisfies this expectation.
    pub fn matches(&self, ev: &Event) -> bool {
        if let Sig::On(inner, want) = self {
            return match ev {
                Event::Report { on, .. } | Event::Foreign { on, .. } => on == want && inner.matches(ev),
                _ => false,
            };
        }
        match ev {
            Event::Report { kind, loc, .. } => {
                if loc != self.loc() {
                    return false;
                }
                match (self, kind) {
                    (Sig::AnyAt { .. }, _) => true,
                    (Sig::Ivk { actual, accepted, .. }, RKind::IncorrectValueKind { actual: a2, accepted: acc2 }) => {
                        actual.canonical() == a2.canonical()
                            && *accepted == acc2.iter().copied().collect::<BTreeSet<_>>()
                    }
                    (Sig::Missing { field, .. }, RKind::MissingField { field: f2 }) => field == f2,
                    (Sig::UnknownKey { key, accepted, .. }, RKind::UnknownKey { key: k2, accepted: a2 }) => {
                        key == k2 && accepted == a2
                    }
                    (Sig::UnknownValue { value, accepted, .. }, RKind::UnknownValue { value: v2, accepted: a2 }) => {
                        value == v2 && accepted == a2
                    }
                    (Sig::BadLen { actual, expected, .. }, RKind::BadSequenceLen { actual: a2, expected: e2 }) => {
                        actual.canonical() == a2.canonical() && expected == e2
                    }
                    (Sig::Unexpected { contains, .. }, RKind::Unexpected { msg }) => {
                        contains.iter().all(|c| msg.contains(c.as_str()))
                    }
                    (Sig::Domain { dom, .. }, RKind::Unexpected { msg }) => domain_message_ok(dom, msg),
                    _ => false,
                }
            }
            Event::Foreign { src, loc, on, .. } => match self {
                Sig::Foreign { loc: l2, src: s2, on: o2 } => loc == l2 && src == s2 && on == o2,
                Sig::AnyAt { loc: l2 } => loc == l2,
                _ => false,
            },
            _ => false,
        }
    }
}

#[derive(Clone, Debug, Default)]
pub struct RefOut {
    /// `Some(dump)` iff the call must succeed
    pub value: Option<Doc>,
    pub required: Vec<Sig>,
    /// reports the statements neither demand nor forbid
    pub optional: Vec<Sig>,
    pub visited: Vec<Loc>,
    pub visited_optional: Vec<Loc>,
    pub calls: Vec<UserCall>,
    pub calls_optional: Vec<UserCall>,
}

// ---------- independent name transformations ----------

/// camelCase as documented: words are split on `_` and on lower→upper
/// boundaries, lowercased, and all but the first capitalised.
pub fn camel(ident: &str) -> String {
    // word boundaries: `_`, lower→upper, and every letter↔digit change (the established behaviour of
    // the crate for identifiers with digits: `sha256sum` → `sha256Sum`, `a1b` → `a1B`)
    #[derive(PartialEq, Clone, Copy)]
    enum Cls {
        Lower,
        Upper,
        Digit,
        Other,
    }
    let cls = |c: char| {
        if c.is_ascii_digit() {
            Cls::Digit
        } else if c.is_uppercase() {
            Cls::Upper
        } else if c.is_lowercase() {
            Cls::Lower
        } else {
            Cls::Other
        }
    };
    let mut words: Vec<String> = vec![];
    let mut cur = String::new();
    let mut prev: Option<Cls> = None;
    for ch in ident.chars() {
        if ch == '_' {
            if !cur.is_empty() {
                words.push(std::mem::take(&mut cur));
            }
            prev = None;
            continue;
        }
        let c = cls(ch);
        let boundary = match (prev, c) {
            (Some(Cls::Lower), Cls::Upper) => true,
            (Some(Cls::Digit), Cls::Lower | Cls::Upper) => true,
            (Some(Cls::Lower | Cls::Upper), Cls::Digit) => true,
            _ => false,
        };
        if boundary && !cur.is_empty() {
            words.push(std::mem::take(&mut cur));
        }
        prev = Some(c);
        cur.push(ch);
    }
    if !cur.is_empty() {
        words.push(cur);
    }
    let mut out = String::new();
    for (i, w) in words.iter().enumerate() {
        let lw = w.to_lowercase();
        if i == 0 {
            out.push_str(&lw);
        } else {
            let mut cs = lw.chars();
            if let Some(c) = cs.next() {
                out.extend(c.to_uppercase());
                out.push_str(cs.as_str());
            }
        }
    }
    out
}

pub fn apply_rename_all(ident: &str, ra: Option<RenameAll>) -> String {
    match ra {
        None => ident.to_string(),
        Some(RenameAll::Camel) => camel(ident),
        Some(RenameAll::Lower) => ident.to_lowercase(),
    }
}

/// The name of an identifier: `r#type` is the raw spelling of the identifier `type`.
pub fn ident_name(ident: &str) -> &str {
    ident.strip_prefix("r#").unwrap_or(ident)
}

pub fn field_key(f: &FieldSpec, ra: Option<RenameAll>) -> String {
    match &f.rename {
        Some(r) => r.clone(),
        None => apply_rename_all(ident_name(&f.ident), ra),
    }
}

pub fn variant_name(v: &VariantSpec, enum_ra: Option<RenameAll>) -> String {
    match &v.rename {
        Some(r) => r.clone(),
        None => apply_rename_all(&v.ident, enum_ra),
    }
}

// ---------- defaults and the function library's semantics ----------

/// `Default::default()` of a deserialized type, as dumped.
fn trait_default_of(t: &Ty) -> Doc {
    match t {
        Ty::P(t) | Ty::Bx(t) => trait_default_of(t),
        Ty::Opt(_) => Doc::Null,
        Ty::Vec(_) | Ty::HSet(_) | Ty::BSet(_) => Doc::Seq(vec![]),
        Ty::Map { .. } => Doc::Obj(vec![]),
        Ty::Sc(Scalar::Bool) => Doc::Bool(false),
        Ty::Sc(Scalar::Str) => Doc::Str(String::new()),
        Ty::Sc(Scalar::Unit) | Ty::Phantom => Doc::Null,
        Ty::Sc(s) if s.int_shape().map(|(_, _, nz)| !nz).unwrap_or(false) => Doc::Int(0),
        other => panic!("no trait default known for {other:?}"),
    }
}

pub fn default_doc(f: &FieldSpec) -> Doc {
    if decl_class(f) == DeclClass::Other && f.default != DefaultSpec::Expr {
        return trait_default_of(&f.ty);
    }
    let expr = f.default == DefaultSpec::Expr;
    match decl_class(f) {
        DeclClass::PU8 | DeclClass::Cv => Doc::Int(if expr { 7 } else { 0 }),
        DeclClass::OptPU8 => {
            if expr {
                Doc::Int(7)
            } else {
                Doc::Null
            }
        }
        DeclClass::PVecPU8 => {
            if expr {
                Doc::Seq(vec![Doc::Int(7)])
            } else {
                Doc::Seq(vec![])
            }
        }
        DeclClass::Other => panic!("no default for {f:?}"),
    }
}

pub fn bump_doc(f: &FieldSpec, d: &Doc) -> (&'static str, Doc) {
    match decl_class(f) {
        DeclClass::PU8 => {
            let Doc::Int(x) = d else { panic!("bump P<u8> of {d:?}") };
            ("P<u8>", Doc::Int((*x as u8).wrapping_add(BUMP_U8) as u64))
        }
        DeclClass::Cv => {
            let Doc::Int(x) = d else { panic!() };
            ("Cv", Doc::Int((*x as u16).wrapping_add(BUMP_CV) as u64))
        }
        DeclClass::OptPU8 => {
            let x = match d {
                Doc::Null => 0u8,
                Doc::Int(x) => *x as u8,
                _ => panic!(),
            };
            ("Option<P<u8>>", Doc::Int(x.wrapping_add(BUMP_U8) as u64))
        }
        DeclClass::PVecPU8 => {
            let Doc::Seq(v) = d else { panic!() };
            let mut v = v.clone();
            v.push(Doc::Int(BUMP_U8 as u64));
            ("P<Vec<P<u8>>>", Doc::Seq(v))
        }
        DeclClass::Other => panic!("no bump for {f:?}"),
    }
}

pub fn parse_key(k: KeyTy, s: &str) -> Option<String> {
    // std's FromStr is not code under test; the result is rendered back with
    // Display, which is how the dump keys a map.
    match k {
        KeyTy::Str => Some(s.to_string()),
        KeyTy::U8 | KeyTy::Gen => s.parse::<u8>().ok().map(|x| x.to_string()),
        KeyTy::I32 => s.parse::<i32>().ok().map(|x| x.to_string()),
        KeyTy::Bool => s.parse::<bool>().ok().map(|x| x.to_string()),
        KeyTy::Char => s.parse::<char>().ok().map(|x| x.to_string()),
    }
}

/// What the field conversions see of their intermediate value (`ConvIn`).
fn conv_in(x: &Doc) -> u64 {
    match x {
        Doc::Int(n) => *n,
        Doc::Null => crate::probe::NONE_ARG as u64,
        other => panic!("conversion input {other:?}"),
    }
}

struct Ctx<'a> {
    cat: &'a Catalogue,
    out: RefOut,
    /// the error type in force (see `Sig::On`)
    on: u8,
    /// > 0 while inside a region the statements leave open (value of an entry
    /// whose key cannot be parsed)
    optional: u32,
}

fn push(mut loc: Loc, s: Step) -> Loc {
    loc.push(s);
    loc
}

impl<'a> Ctx<'a> {
    fn report(&mut self, s: Sig) {
        let s = match s {
            Sig::Foreign { .. } | Sig::On(..) => s,
            other => Sig::On(Box::new(other), self.on),
        };
        if self.optional > 0 {
            self.out.optional.push(s)
        } else {
            self.out.required.push(s)
        }
    }
    fn call(&mut self, c: UserCall) {
        if self.optional > 0 {
            self.out.calls_optional.push(c)
        } else {
            self.out.calls.push(c)
        }
    }
    fn visit(&mut self, loc: &Loc) {
        if self.optional > 0 {
            self.out.visited_optional.push(loc.clone())
        } else {
            self.out.visited.push(loc.clone())
        }
    }

    fn validate(&mut self, on: bool, same_err: bool, v: Option<Doc>, loc: &Loc) -> Option<Doc> {
        let v = v?;
        if !on {
            return Some(v);
        }
        if same_err {
            let sum = v.int_sum();
            let ok = sum % 3 != 0;
            self.call(UserCall::Validate { value: v.clone(), loc: loc.clone(), ok });
            if ok {
                return Some(v);
            }
            self.report(Sig::Unexpected { loc: loc.clone(), contains: vec![format!("validate-same:{sum}")] });
            return None;
        }
        let sum = v.int_sum();
        let ok = sum % 3 != 0;
        self.call(UserCall::Validate { value: v.clone(), loc: loc.clone(), ok });
        if ok {
            Some(v)
        } else {
            self.report(Sig::Foreign { loc: loc.clone(), src: ForeignSrc::Validate { sum }, on: self.on });
            None
        }
    }

    fn eval(&mut self, ty: &Ty, d: &Doc, loc: &Loc) -> Option<Doc> {
        match ty {
            Ty::Sc(sc) => match scalar_expect(*sc, d) {
                ScalarExpect::Ok(v) => Some(v),
                ScalarExpect::WrongKind(acc) => {
                    self.report(Sig::Ivk { loc: loc.clone(), actual: d.clone(), accepted: acc });
                    None
                }
                ScalarExpect::Domain(dom) => {
                    self.report(Sig::Domain { loc: loc.clone(), dom });
                    None
                }
            },
            Ty::Json => self.eval_json(d, loc),
            Ty::Phantom => Some(Doc::Null),
            Ty::P(t) => {
                self.visit(loc);
                self.eval(t, d, loc)
            }
            Ty::Opt(t) => {
                if *d == Doc::Null {
                    Some(Doc::Null)
                } else {
                    // a present content that dumps as null is told apart from `None` (see `Dump`)
                    self.eval(t, d, loc).map(|x| if x == Doc::Null { crate::probe::some_null() } else { x })
                }
            }
            Ty::Bx(t) => self.eval(t, d, loc),
            Ty::Vec(t) | Ty::HSet(t) | Ty::BSet(t) => {
                let Doc::Seq(v) = d else {
                    self.report(Sig::Ivk { loc: loc.clone(), actual: d.clone(), accepted: [Kind::Sequence].into() });
                    return None;
                };
                let vals: Vec<Option<Doc>> =
                    v.iter().enumerate().map(|(i, e)| self.eval(t, e, &push(loc.clone(), Step::Index(i)))).collect();
                let vals: Option<Vec<Doc>> = vals.into_iter().collect();
                let vals = vals?;
                if matches!(ty, Ty::Vec(_)) {
                    Some(Doc::Seq(vals))
                } else {
                    let mut keyed: Vec<(String, Doc)> = vals.into_iter().map(|d| (d.text(), d)).collect();
                    keyed.sort_by(|a, b| a.0.cmp(&b.0));
                    keyed.dedup_by(|a, b| a.0 == b.0);
                    Some(Doc::Seq(keyed.into_iter().map(|x| x.1).collect()))
                }
            }
            Ty::Arr(_, _) | Ty::Tup(_) => {
                let tys: Vec<&Ty> = match ty {
                    Ty::Arr(t, n) => (0..*n).map(|_| &**t).collect(),
                    Ty::Tup(ts) => ts.iter().collect(),
                    _ => unreachable!(),
                };
                let Doc::Seq(v) = d else {
                    self.report(Sig::Ivk { loc: loc.clone(), actual: d.clone(), accepted: [Kind::Sequence].into() });
                    return None;
                };
                if v.len() != tys.len() {
                    self.report(Sig::BadLen { loc: loc.clone(), actual: d.clone(), expected: tys.len() });
                    return None;
                }
                let vals: Vec<Option<Doc>> = v
                    .iter()
                    .zip(tys)
                    .enumerate()
                    .map(|(i, (e, t))| self.eval(t, e, &push(loc.clone(), Step::Index(i))))
                    .collect();
                let vals: Option<Vec<Doc>> = vals.into_iter().collect();
                Some(Doc::Seq(vals?))
            }
            Ty::Map { key, val, .. } => {
                let Doc::Obj(m) = d else {
                    self.report(Sig::Ivk { loc: loc.clone(), actual: d.clone(), accepted: [Kind::Map].into() });
                    return None;
                };
                let mut ok = true;
                let mut res: Vec<(String, Doc)> = vec![];
                for (k, v) in m {
                    match parse_key(*key, k) {
                        None => {
                            // reported naming the key; the call fails; whether the entry's value is
                            // still examined is left open by the statements
                            self.report(Sig::Unexpected { loc: loc.clone(), contains: vec![k.clone()] });
                            ok = false;
                            self.optional += 1;
                            let _ = self.eval(val, v, &push(loc.clone(), Step::Key(k.clone())));
                            self.optional -= 1;
                        }
                        Some(pk) => match self.eval(val, v, &push(loc.clone(), Step::Key(k.clone()))) {
                            Some(x) => res.push((pk, x)),
                            None => ok = false,
                        },
                    }
                }
                if !ok {
                    return None;
                }
                // keyed by the parsed key; of entries that parse to the same key the last one stays
                // (such payloads are compared on status and reports only, see has_colliding_map_keys)
                res.sort_by(|a, b| a.0.cmp(&b.0));
                let mut dedup: Vec<(String, Doc)> = Vec::with_capacity(res.len());
                for e in res {
                    match dedup.last_mut() {
                        Some(l) if l.0 == e.0 => *l = e,
                        _ => dedup.push(e),
                    }
                }
                Some(Doc::Obj(dedup))
            }
            Ty::Cs(k) => {
                let Doc::Str(s) = d else {
                    self.report(Sig::Ivk { loc: loc.clone(), actual: d.clone(), accepted: [Kind::String].into() });
                    return None;
                };
                let mut out = vec![];
                for seg in s.split(',').filter(|x| !x.is_empty()) {
                    let v = match k {
                        KeyTy::Str => Some(Doc::Str(seg.to_string())),
                        KeyTy::U8 => seg.parse::<u8>().ok().map(|x| Doc::Int(x as u64)),
                        _ => unreachable!("CS over unsupported segment type"),
                    };
                    match v {
                        Some(v) => out.push(v),
                        None => {
                            self.report(Sig::Unexpected { loc: loc.clone(), contains: vec![] });
                            return None;
                        }
                    }
                }
                Some(Doc::Seq(out))
            }
            Ty::Item(i) => self.eval_item(*i, d, loc),
        }
    }

    fn eval_json(&mut self, d: &Doc, loc: &Loc) -> Option<Doc> {
        match d {
            Doc::Float(f) if !f.is_finite() => {
                self.report(Sig::Unexpected { loc: loc.clone(), contains: vec![] });
                None
            }
            Doc::Seq(v) => {
                let vals: Vec<Option<Doc>> =
                    v.iter().enumerate().map(|(i, e)| self.eval_json(e, &push(loc.clone(), Step::Index(i)))).collect();
                let vals: Option<Vec<Doc>> = vals.into_iter().collect();
                Some(Doc::Seq(vals?))
            }
            Doc::Obj(m) => {
                let vals: Vec<(String, Option<Doc>)> = m
                    .iter()
                    .map(|(k, e)| (k.clone(), self.eval_json(e, &push(loc.clone(), Step::Key(k.clone())))))
                    .collect();
                let mut out = vec![];
                for (k, v) in vals {
                    out.push((k, v?));
                }
                Some(Doc::Obj(out).canonical())
            }
            d => Some(d.clone()),
        }
    }

    /// Named fields of a struct or struct-like variant, read from `entries`
    /// (the object's members; for a variant: minus the tag entry).
    fn eval_fields(
        &mut self,
        fields: &[FieldSpec],
        ra: Option<RenameAll>,
        deny: Deny,
        entries: &[(String, Doc)],
        loc: &Loc,
    ) -> Option<Vec<(String, Doc)>> {
        let mut ok = true;
        let active: Vec<(&FieldSpec, String)> =
            fields.iter().filter(|f| !f.skip).map(|f| (f, field_key(f, ra))).collect();
        let accepted: Vec<String> = active.iter().map(|(_, k)| k.clone()).collect();
        // value of each active field after conversion, if it was present and good
        let mut got: Vec<Option<Doc>> = vec![None; active.len()];
        let mut present: Vec<bool> = vec![false; active.len()];
        for (k, v) in entries {
            if let Some(ix) = active.iter().position(|(_, key)| key == k) {
                let f = active[ix].0;
                present[ix] = true;
                let kloc = push(loc.clone(), Step::Key(k.clone()));
                // a field-level error type governs the whole value of the field
                let outer_on = self.on;
                if f.err_b {
                    self.on = 1;
                }
                let r = self.eval(&f.ty, v, &kloc);
                self.on = outer_on;
                got[ix] = match r {
                    None => {
                        ok = false;
                        None
                    }
                    Some(x) => match f.conv {
                        Conv::None => Some(x),
                        Conv::From { by_ref } => {
                            let n = conv_in(&x);
                            let (name, add) = if by_ref { ("from_ref", FROM_REF) } else { ("from_inc", FROM_INC) };
                            self.call(UserCall::Conv { fn_name: name, arg: n as u8, ok: true });
                            Some(Doc::Int(if f.conv_same_decl { (n + add as u64) % 256 } else { n + add as u64 }))
                        }
                        Conv::TryFrom { by_ref } => {
                            let n = conv_in(&x);
                            let (name, add) = if by_ref { ("try_ref", TRY_REF) } else { ("try_even", TRY_EVEN) };
                            let good = n % 2 == 0;
                            self.call(UserCall::Conv { fn_name: name, arg: n as u8, ok: good });
                            if good {
                                Some(Doc::Int(if f.conv_same_decl { (n + add as u64) % 256 } else { n + add as u64 }))
                            } else {
                                self.report(Sig::Foreign {
                                    loc: kloc.clone(),
                                    src: ForeignSrc::Conv { fn_name: name.to_string(), arg: Doc::Int(n) },
                                    // first merged into the field's own error type, if it has one
                                    on: if f.err_b { 1 } else { self.on },
                                });
                                ok = false;
                                None
                            }
                        }
                    },
                };
            } else {
                match deny {
                    Deny::No => {}
                    Deny::Default => {
                        self.report(Sig::UnknownKey { loc: loc.clone(), key: k.clone(), accepted: accepted.clone() });
                        ok = false;
                    }
                    Deny::Custom => {
                        self.call(UserCall::CustomUnknown { key: k.clone(), accepted: accepted.clone(), loc: loc.clone() });
                        self.report(Sig::Unexpected { loc: loc.clone(), contains: vec![format!("custom-unknown:{k}")] });
                        ok = false;
                    }
                    Deny::CustomForeign => {
                        self.call(UserCall::CustomUnknown { key: k.clone(), accepted: accepted.clone(), loc: loc.clone() });
                        self.report(Sig::Foreign {
                            loc: loc.clone(),
                            src: ForeignSrc::Conv { fn_name: "custom_unknown_f".to_string(), arg: Doc::Str(k.clone()) },
                            on: self.on,
                        });
                        ok = false;
                    }
                }
            }
        }
        for (ix, (f, key)) in active.iter().enumerate() {
            if !present[ix] && !f.has_default() {
                if f.missing_fn && f.missing_foreign {
                    self.call(UserCall::CustomMissing { key: key.clone(), loc: loc.clone() });
                    self.report(Sig::Foreign {
                        loc: loc.clone(),
                        src: ForeignSrc::Conv { fn_name: "custom_missing_f".to_string(), arg: Doc::Str(key.clone()) },
                        on: self.on,
                    });
                } else if f.missing_fn {
                    self.call(UserCall::CustomMissing { key: key.clone(), loc: loc.clone() });
                    self.report(Sig::Unexpected { loc: loc.clone(), contains: vec![format!("custom-missing:{key}")] });
                } else {
                    self.report(Sig::Missing { loc: loc.clone(), field: key.clone() });
                }
                ok = false;
            }
        }
        if !ok {
            return None;
        }
        // all fields succeeded: defaults, then `map` on top, in declaration order
        let mut out = vec![];
        for f in fields {
            let v = if f.skip {
                default_doc(f)
            } else {
                let ix = active.iter().position(|(g, _)| std::ptr::eq(*g, f)).unwrap();
                match &got[ix] {
                    Some(v) => v.clone(),
                    None => default_doc(f),
                }
            };
            let v = if f.map {
                let (decl, b) = bump_doc(f, &v);
                self.call(UserCall::Map { decl, arg: v });
                b
            } else {
                v
            };
            out.push((f.ident.clone(), v));
        }
        Some(out)
    }

    fn eval_item(&mut self, i: usize, d: &Doc, loc: &Loc) -> Option<Doc> {
        let cat = self.cat;
        match &cat.items[i] {
            Item::Struct(s) => {
                let Doc::Obj(m) = d else {
                    self.report(Sig::Ivk { loc: loc.clone(), actual: d.clone(), accepted: [Kind::Map].into() });
                    return None;
                };
                let v = self.eval_fields(&s.fields, s.rename_all, s.deny, m, loc).map(Doc::Obj);
                self.validate(s.validate, s.same_err, v, loc)
            }
            Item::Enum(e) => {
                let v = match &e.tag {
                    None => {
                        let Doc::Str(s) = d else {
                            self.report(Sig::Ivk { loc: loc.clone(), actual: d.clone(), accepted: [Kind::String].into() });
                            return None;
                        };
                        let names: Vec<String> = e.variants.iter().map(|v| variant_name(v, e.rename_all)).collect();
                        match names.iter().position(|n| n == s) {
                            Some(ix) => Some(Doc::Obj(vec![(
                                "$variant".to_string(),
                                Doc::Str(e.variants[ix].ident.clone()),
                            )])),
                            None => {
                                self.report(Sig::UnknownValue { loc: loc.clone(), value: s.clone(), accepted: names });
                                None
                            }
                        }
                    }
                    Some(tag) => {
                        let Doc::Obj(m) = d else {
                            self.report(Sig::Ivk { loc: loc.clone(), actual: d.clone(), accepted: [Kind::Map].into() });
                            return None;
                        };
                        let Some(tpos) = m.iter().position(|(k, _)| k == tag) else {
                            self.report(Sig::Missing { loc: loc.clone(), field: tag.clone() });
                            return None;
                        };
                        let Doc::Str(tv) = &m[tpos].1 else {
                            self.report(Sig::Ivk {
                                loc: push(loc.clone(), Step::Key(tag.clone())),
                                actual: m[tpos].1.clone(),
                                accepted: [Kind::String].into(),
                            });
                            return None;
                        };
                        let Some(var) = e.variants.iter().find(|v| variant_name(v, e.rename_all) == *tv) else {
                            self.report(Sig::AnyAt { loc: loc.clone() });
                            return None;
                        };
                        let head = ("$variant".to_string(), Doc::Str(var.ident.clone()));
                        match &var.fields {
                            None => Some(Doc::Obj(vec![head])),
                            Some(fs) => {
                                let mut rest = m.clone();
                                rest.remove(tpos);
                                // a variant's fields are renamed only by the variant's own rename_all
                                self.eval_fields(fs, var.rename_all, e.deny, &rest, loc).map(|mut v| {
                                    v.insert(0, head);
                                    Doc::Obj(v)
                                })
                            }
                        }
                    }
                };
                self.validate(e.validate, e.same_err, v, loc)
            }
            Item::Conv(c) => {
                let via = self.eval(&c.via, d, loc)?;
                let v = if c.fallible {
                    let good = via.int_sum() % 2 == 0;
                    self.call(UserCall::ContainerConv { item: i, by_ref: c.by_ref, arg: via.clone(), ok: good });
                    if good {
                        Some(Doc::Obj(vec![(
                            "$conv".to_string(),
                            Doc::Obj(vec![("try_from".to_string(), via)]),
                        )]))
                    } else if c.same_err {
                        // the function has no location to report at but the origin
                        self.report(Sig::Unexpected { loc: vec![], contains: vec![format!("conv-same:c{i}_fn")] });
                        None
                    } else {
                        self.report(Sig::Foreign {
                            loc: loc.clone(),
                            src: ForeignSrc::Conv { fn_name: format!("c{i}_fn"), arg: via },
                            on: self.on,
                        });
                        None
                    }
                } else {
                    self.call(UserCall::ContainerConv { item: i, by_ref: c.by_ref, arg: via.clone(), ok: true });
                    Some(Doc::Obj(vec![("$conv".to_string(), Doc::Obj(vec![("from".to_string(), via)]))]))
                };
                self.validate(c.validate, c.same_err, v, loc)
            }
        }
    }
}

/// Expected outcome of `deserialize::<ty>(payload)` under a keep-going error type.
pub fn reference(cat: &Catalogue, ty: &Ty, payload: &Doc) -> RefOut {
    let mut cx = Ctx { cat, out: RefOut::default(), optional: 0, on: 0 };
    let v = cx.eval(ty, payload, &vec![]);
    let mut out = cx.out;
    debug_assert_eq!(v.is_some(), out.required.is_empty(), "reference: value iff no required report");
    out.value = v;
    out
}

/// `required ⊆ observed ⊆ required ⊎ optional`, with predicate matching.
/// Returns a description of the first discrepancy.
pub fn match_reports(required: &[Sig], optional: &[Sig], observed: &[&Event]) -> Result<(), String> {
    // backtracking assignment of each observed report to a distinct expectation
    let all: Vec<(&Sig, bool)> = required.iter().map(|s| (s, true)).chain(optional.iter().map(|s| (s, false))).collect();
    fn go(obs: &[&Event], all: &[(&Sig, bool)], used: &mut Vec<bool>) -> bool {
        let Some((first, rest)) = obs.split_first() else {
            // every required expectation must be used
            return all.iter().zip(used.iter()).all(|((_, req), u)| !*req || *u);
        };
        for (i, (s, _)) in all.iter().enumerate() {
            if !used[i] && s.matches(first) {
                used[i] = true;
                if go(rest, all, used) {
                    return true;
                }
                used[i] = false;
            }
        }
        false
    }
    let mut used = vec![false; all.len()];
    if go(observed, &all, &mut used) {
        return Ok(());
    }
    // explain: first observed report no expectation matches, or first required not observed
    for o in observed {
        if !all.iter().any(|(s, _)| s.matches(o)) {
            return Err(format!("unexpected report {o:?}"));
        }
    }
    for s in required {
        if !observed.iter().any(|o| s.matches(o)) {
            return Err(format!("expected report not made: {s:?}"));
        }
    }
    Err(format!(
        "report multiset mismatch: expected {} required (+{} optional), observed {}",
        required.len(),
        optional.len(),
        observed.len()
    ))
}

/// Multiset relation `required ⊆ observed ⊆ required ⊎ optional` for plain values.
pub fn match_multiset<T: PartialEq + std::fmt::Debug>(
    what: &str,
    required: &[T],
    optional: &[T],
    observed: &[T],
) -> Result<(), String> {
    let mut req: Vec<&T> = required.iter().collect();
    let mut opt: Vec<&T> = optional.iter().collect();
    for o in observed {
        if let Some(i) = req.iter().position(|r| *r == o) {
            req.swap_remove(i);
        } else if let Some(i) = opt.iter().position(|r| *r == o) {
            opt.swap_remove(i);
        } else {
            return Err(format!("unexpected {what}: {o:?}"));
        }
    }
    if let Some(r) = req.first() {
        return Err(format!("expected {what} did not happen: {r:?}"));
    }
    Ok(())
}

/// Start-up self-check of the interpreter against outcomes *documented* in the
/// book and pinned by the repository's own tests (a mismatch is a harness
/// error, exit 2 — never a verdict).
fn strip_on(v: &[Sig]) -> Vec<Sig> {
    v.iter()
        .map(|s| match s {
            Sig::On(inner, _) => (**inner).clone(),
            other => other.clone(),
        })
        .collect()
}

pub fn self_check() -> Result<(), String> {
    use mc_desc::catalogue::{tagged_enum, unit_enum};
    let mut cat = Catalogue::default();
    // book/attributes/container.md: rename_all = camelCase
    assert_eq!(camel("attributes_to_retrieve"), "attributesToRetrieve");
    assert_eq!(camel("my__field"), "myField");
    assert_eq!(camel("_lead"), "lead");
    assert_eq!(camel("MyField"), "myField");
    let mut s = StructSpec::plain(vec![FieldSpec::plain("query", p(sc(Scalar::Str))), FieldSpec::plain("attributes_to_retrieve", p(vec_of(p(sc(Scalar::Str)))))]);
    s.rename_all = Some(RenameAll::Camel);
    let i = cat.add(Item::Struct(s));
    let r = reference(&cat, &p(Ty::Item(i)), &Doc::parse(r#"{"query":"doggo","attributesToRetrieve":["age","name"]}"#));
    if r.value.as_ref().map(|d| d.canonical()) != Some(Doc::parse(r#"{"query":"doggo","attributes_to_retrieve":["age","name"]}"#)) {
        return Err(format!("book: rename_all = camelCase example: {:?}", r.value));
    }
    // book: deny_unknown_fields → Unknown field `doggo`: expected one of `query`
    let mut s = StructSpec::plain(vec![FieldSpec::plain("query", p(sc(Scalar::Str)))]);
    s.deny = Deny::Default;
    let i = cat.add(Item::Struct(s));
    let r = reference(&cat, &p(Ty::Item(i)), &Doc::parse(r#"{"query":"doggo","doggo":"bork"}"#));
    if strip_on(&r.required) != vec![Sig::UnknownKey { loc: vec![], key: "doggo".into(), accepted: vec!["query".into()] }] {
        return Err(format!("book: deny_unknown_fields example: {:?}", r.required));
    }
    // tests/attributes/skip.rs: a skipped field keeps its default and its name is unknown under deny
    let mut s = StructSpec::plain(vec![
        FieldSpec::plain("doggo", p(sc(Scalar::Str))),
        FieldSpec { skip: true, default: DefaultSpec::Expr, ..FieldSpec::plain("catto", pu8()) },
    ]);
    s.deny = Deny::Default;
    let i = cat.add(Item::Struct(s));
    let r = reference(&cat, &p(Ty::Item(i)), &Doc::parse(r#"{"doggo":"bork","catto":3}"#));
    if strip_on(&r.required) != vec![Sig::UnknownKey { loc: vec![], key: "catto".into(), accepted: vec!["doggo".into()] }] {
        return Err(format!("tests: skip + deny_unknown_fields: {:?}", r.required));
    }
    let r = reference(&cat, &p(Ty::Item(i)), &Doc::parse(r#"{"doggo":"bork"}"#));
    if r.value.as_ref().map(|d| d.canonical()) != Some(Doc::parse(r#"{"doggo":"bork","catto":7}"#)) {
        return Err(format!("tests: skip + default: {:?}", r.value));
    }
    // lib.rs docs: internally tagged enum; tests/attributes/tag.rs: rename_all renames variants only
    let mut e = tagged_enum("type");
    e.rename_all = Some(RenameAll::Camel);
    let i = cat.add(Item::Enum(e));
    let r = reference(&cat, &p(Ty::Item(i)), &Doc::parse(r#"{"type":"structV","fa_x":1,"fbCap":2}"#));
    if r.value.as_ref().map(|d| d.canonical()) != Some(Doc::parse(r#"{"$variant":"StructV","fa_x":1,"fbCap":2}"#)) {
        return Err(format!("tagged enum with rename_all: {:?} / {:?}", r.value, r.required));
    }
    let r = reference(&cat, &p(Ty::Item(i)), &Doc::parse(r#"{"fa_x":1}"#));
    if strip_on(&r.required) != vec![Sig::Missing { loc: vec![], field: "type".into() }] {
        return Err(format!("missing tag: {:?}", r.required));
    }
    // errors/json.rs tests: unknown value lists every variant in declaration order
    let i = cat.add(Item::Enum(unit_enum(3, Some(RenameAll::Lower), false)));
    let r = reference(&cat, &p(Ty::Item(i)), &Doc::s("Alpha"));
    if strip_on(&r.required) != vec![Sig::UnknownValue { loc: vec![], value: "Alpha".into(), accepted: vec!["alpha".into(), "betatwo".into(), "gamma".into()] }] {
        return Err(format!("unit enum lowercase: {:?}", r.required));
    }
    // tests/supported_value_types.rs: tuple arity, and number-range-error-messages.rs
    let r = reference(&cat, &p(Ty::Tup(vec![pu8(), pu8()])), &Doc::parse("[1,2,3]"));
    if strip_on(&r.required) != vec![Sig::BadLen { loc: vec![], actual: Doc::parse("[1,2,3]"), expected: 2 }] {
        return Err(format!("tuple arity: {:?}", r.required));
    }
    match scalar_expect(Scalar::U8, &Doc::Int(256)) {
        ScalarExpect::Domain(Domain::TooLarge { received, bound }) if received == "256" && bound == "255" => {}
        other => return Err(format!("u8 range: {other:?}")),
    }
    match scalar_expect(Scalar::I8, &Doc::Neg(-129)) {
        ScalarExpect::Domain(Domain::TooSmall { received, bound }) if received == "-129" && bound == "-128" => {}
        other => return Err(format!("i8 range: {other:?}")),
    }
    if !domain_message_ok(
        &Domain::TooLarge { received: "256".into(), bound: "255".into() },
        "value: `256` is too large to be deserialized, maximum value authorized is `255`",
    ) {
        return Err("documented range message rejected by the message predicate".into());
    }
    Ok(())
}
