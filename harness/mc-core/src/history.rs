//! History independence: what a call to `deserialize` returns (and reports) must not depend on
//! the calls made before it on the same thread.  Every statement is about one call as a function
//! of its type, payload and error type; hidden state (caches, counters, thread-locals, statics)
//! that leaks from one call into the next breaks it for the histories that set the state up.
//!
//! Explored exhaustively over a stated alphabet: all histories `a^k · b` with `a` any call of the
//! alphabet, `b` any call of a probe subset (and `a` itself), `k ∈ {1}` (thorough: `{1, 2}`) for all
//! pairs and `k ∈ {130}` (thorough: `{130, 1030}`) followed by every probe; every history runs on a fresh
//! OS thread (fresh thread-locals), and the observation of *every* call in it is compared with the
//! observation of the same call made first on a fresh thread.

use crate::doc::*;
use crate::engine::*;
use crate::entry::*;
use crate::evidence::*;
use crate::explore::*;
use crate::rec::*;
use crate::space::Gen;
use mc_desc::emit::ty_str;
use serde_json::json;
use std::sync::atomic::{AtomicUsize, Ordering};

#[derive(Clone)]
pub struct Call {
    pub ri: usize,
    pub doc: Doc,
}

/// What one call shows: the keep-going run, the all-stop run, and (for types usable with them)
/// the results under the two built-in error types.
#[derive(Clone, PartialEq, Debug)]
pub struct Obs {
    keep: (Result<Doc, Vec<u32>>, Vec<Event>, Option<String>),
    stop: (Result<Doc, Vec<u32>>, Vec<Event>, Option<String>),
    json: Option<Result<Doc, String>>,
    query: Option<Result<Doc, String>>,
}

pub fn observe(e: &Engine, c: &Call, builtin: bool) -> Obs {
    let entry = &e.entries[c.ri];
    let k = execute(entry, Src::Json, &c.doc, &Script::keep_going());
    let s = execute(entry, Src::Json, &c.doc, &Script { prefix: vec![], default: true });
    let run_msg = |f: Option<RunMsg>| -> Option<Result<Doc, String>> {
        let f = f?;
        if !builtin {
            return None;
        }
        begin(&Script::keep_going());
        let r = std::panic::catch_unwind(|| f(Src::Json, &c.doc));
        let _ = end();
        Some(r.unwrap_or_else(|_| Err("<panicked>".to_string())))
    };
    Obs {
        keep: (k.result, k.events, k.panicked),
        stop: (s.result, s.events, s.panicked),
        json: run_msg(entry.run_json),
        query: run_msg(entry.run_query),
    }
}

/// The alphabet of calls for the roots selected by `select`.
pub fn alphabet(e: &Engine, select: &dyn Fn(&mc_desc::Root) -> bool) -> Vec<Call> {
    let g = Gen::new(e.cat);
    let mut calls = vec![];
    for (ri, root) in e.cat.roots.iter().enumerate() {
        if !select(root) {
            continue;
        }
        let mut docs: Vec<Doc> = vec![];
        let bases = g.bases(&root.ty);
        if let Some(b) = bases.first() {
            docs.push(b.clone());
        }
        // every leaf faulty at once
        docs.extend(g.saturated(&root.ty).into_iter().take(1));
        // single faults: the first, the middle and the last edit of the first base
        if let Some(b) = bases.first() {
            let edits = g.edits(&root.ty, b, true);
            let n = edits.len();
            for ix in [0, n / 2, n.saturating_sub(1)] {
                if ix < n {
                    if let Some(d) = edits[ix].apply(b) {
                        docs.push(d);
                    }
                }
            }
        }
        let mut seen = std::collections::HashSet::new();
        for d in docs {
            if seen.insert(d.text()) {
                calls.push(Call { ri, doc: d });
            }
        }
    }
    calls
}

fn on_fresh_thread<T: Send>(f: impl FnOnce() -> T + Send) -> T {
    std::thread::scope(|s| {
        s.spawn(|| {
            silence_panics();
            f()
        })
        .join()
        .expect("history worker thread")
    })
}

pub fn describe(e: &Engine, c: &Call) -> String {
    format!("{} <- {}", ty_str(&e.cat.roots[c.ri].ty, e.cat), c.doc.text())
}

fn diff(a: &Obs, b: &Obs) -> String {
    if a.keep != b.keep {
        format!("keep-going run: {:?}\n    on a fresh thread: {:?}", (&a.keep.0, &a.keep.2, a.keep.1.len()), (&b.keep.0, &b.keep.2, b.keep.1.len()))
    } else if a.stop != b.stop {
        format!("always-stop run: {:?}\n    on a fresh thread: {:?}", (&a.stop.0, &a.stop.2), (&b.stop.0, &b.stop.2))
    } else if a.json != b.json {
        format!("JsonError run: {:?}\n    on a fresh thread: {:?}", a.json, b.json)
    } else {
        format!("QueryParamError run: {:?}\n    on a fresh thread: {:?}", a.query, b.query)
    }
}

pub fn run_history(e: &Engine, rec: &Recorder, prop: &str, select: &(dyn Fn(&mc_desc::Root) -> bool + Sync), builtin: bool) {
    let calls = alphabet(e, select);
    if calls.is_empty() {
        return;
    }
    // reference observations: each call first on its own fresh thread
    let fresh: Vec<Obs> = {
        let next = AtomicUsize::new(0);
        let out: Vec<std::sync::Mutex<Option<Obs>>> = calls.iter().map(|_| std::sync::Mutex::new(None)).collect();
        std::thread::scope(|s| {
            for _ in 0..e.threads {
                s.spawn(|| loop {
                    let i = next.fetch_add(1, Ordering::SeqCst);
                    if i >= calls.len() {
                        break;
                    }
                    let o = on_fresh_thread(|| observe(e, &calls[i], builtin));
                    // twice: the reference itself must be reproducible
                    let o2 = on_fresh_thread(|| observe(e, &calls[i], builtin));
                    if o != o2 {
                        rec.machinery_error(format!("two fresh-thread runs of {} differ", describe(e, &calls[i])));
                    }
                    *out[i].lock().unwrap() = Some(o);
                });
            }
        });
        out.into_iter().map(|m| m.into_inner().unwrap().unwrap()).collect()
    };
    // probe subset: evenly spaced over the alphabet (every root kind is hit), at most 48 calls
    let n_probes = if e.tier == Tier::Quick { 16 } else { 48 };
    let stride = (calls.len() / n_probes).max(1);
    let probes: Vec<usize> = (0..calls.len()).step_by(stride).take(n_probes).collect();
    let short_k: &[usize] = if e.tier == Tier::Quick { &[1] } else { &[1, 2] };
    let long_k: &[usize] = if e.tier == Tier::Quick { &[130] } else { &[130, 1030] };
    let histories = AtomicUsize::new(0);
    let executed = AtomicUsize::new(0);
    let next = AtomicUsize::new(0);
    let violation = |a: usize, k: usize, b: usize, got: &Obs| {
        rec.violation(Violation {
            property: prop.to_string(),
            subject: format!("history dependence: {}", ty_str(&e.cat.roots[calls[b].ri].ty, e.cat)),
            message: format!(
                "after {k} call(s) of\n    {}\n  on the same thread, the call\n    {}\n  no longer behaves as on a fresh thread:\n    {}",
                describe(e, &calls[a]),
                describe(e, &calls[b]),
                diff(got, &fresh[b])
            ),
            replay: json!({"kind": "history", "builtin": builtin, "k": k,
                "a": {"root": calls[a].ri, "type": ty_str(&e.cat.roots[calls[a].ri].ty, e.cat), "payload": doc_to_tagged(&calls[a].doc)},
                "b": {"root": calls[b].ri, "type": ty_str(&e.cat.roots[calls[b].ri].ty, e.cat), "payload": doc_to_tagged(&calls[b].doc)}}),
        });
    };
    std::thread::scope(|s| {
        for _ in 0..e.threads {
            s.spawn(|| loop {
                let a = next.fetch_add(1, Ordering::SeqCst);
                if a >= calls.len() || rec.violation_count() > 50 {
                    break;
                }
                // a · b and a · a · b for every probe b and for b = a
                let mut bs: Vec<usize> = probes.clone();
                if !bs.contains(&a) {
                    bs.push(a);
                }
                for &b in &bs {
                    for &k in short_k {
                        let got = on_fresh_thread(|| {
                            let mut first_bad = None;
                            for n in 0..k {
                                let o = observe(e, &calls[a], builtin);
                                if o != fresh[a] && first_bad.is_none() {
                                    first_bad = Some((n, o));
                                }
                            }
                            (first_bad, observe(e, &calls[b], builtin))
                        });
                        histories.fetch_add(1, Ordering::Relaxed);
                        executed.fetch_add(k + 1, Ordering::Relaxed);
                        if let Some((n, o)) = got.0 {
                            violation(a, n, a, &o);
                        }
                        if got.1 != fresh[b] {
                            violation(a, k, b, &got.1);
                        }
                    }
                }
                // a^k followed by every probe in turn (each probe is checked; a deviation of any of
                // them is a violation whatever preceded it)
                for &k in long_k {
                    let bad = on_fresh_thread(|| {
                        let mut bad: Vec<(usize, usize, Obs)> = vec![];
                        for n in 0..k {
                            let o = observe(e, &calls[a], builtin);
                            if o != fresh[a] {
                                bad.push((a, n, o));
                                return bad;
                            }
                        }
                        // the first call of the same type (a valid payload), then every probe
                        let same_root = calls.iter().position(|c| c.ri == calls[a].ri).unwrap();
                        for b in std::iter::once(same_root).chain(probes.iter().copied()) {
                            let o = observe(e, &calls[b], builtin);
                            if o != fresh[b] {
                                bad.push((b, k, o));
                                return bad;
                            }
                        }
                        bad
                    });
                    histories.fetch_add(1, Ordering::Relaxed);
                    executed.fetch_add(k + probes.len() + 1, Ordering::Relaxed);
                    for (b, n, o) in bad {
                        violation(a, n, b, &o);
                    }
                }
            });
        }
    });
    let h = histories.load(Ordering::Relaxed) as u64;
    let x = executed.load(Ordering::Relaxed) as u64;
    rec.add_counts(calls.len() as u64, h, x);
    rec.set_extra(
        "history_independence",
        json!({"calls_in_alphabet": calls.len(), "probe_calls": probes.len(), "histories_explored": h, "calls_executed": x,
               "shape": format!("a^k·b on a fresh thread, a ∈ alphabet, b ∈ probes ∪ {{a}}, k ∈ {short_k:?}; a^k·(all probes), k ∈ {long_k:?}"),
               "observed": if builtin { "keep-going log, always-stop log, JsonError and QueryParamError results" } else { "keep-going log, always-stop log" }}),
    );
}

/// Replays one history on a fresh thread, twice.
pub fn replay_history(e: &Engine, r: &serde_json::Value, root_of: &dyn Fn(&serde_json::Value) -> usize) -> Result<(), String> {
    let builtin = r["builtin"].as_bool().unwrap_or(false);
    let k = r["k"].as_u64().unwrap_or(1) as usize;
    let a = Call { ri: root_of(&r["a"]), doc: doc_from_tagged(&r["a"]["payload"]) };
    let b = Call { ri: root_of(&r["b"]), doc: doc_from_tagged(&r["b"]["payload"]) };
    let fresh_b = on_fresh_thread(|| observe(e, &b, builtin));
    let run = || {
        on_fresh_thread(|| {
            for _ in 0..k {
                let _ = observe(e, &a, builtin);
            }
            // the probes that ran in between are not replayed: `b` directly after a^k, and after
            // a^k · b once more (the original history may have had further calls before b)
            observe(e, &b, builtin)
        })
    };
    let g1 = run();
    let g2 = run();
    if g1 != g2 {
        return Err("MACHINERY: the history does not replay deterministically".into());
    }
    println!("a = {}\nb = {}\nk = {k}", describe(e, &a), describe(e, &b));
    if g1 != fresh_b {
        Err(format!("after a^{k} the call b differs from b on a fresh thread: {}", diff(&g1, &fresh_b)))
    } else {
        Ok(())
    }
}
