//! C14 — the messages of JsonError and QueryParamError describe the first
//! report of the keep-going run (DESIGN.md §5 C14, Appendix B).

use crate::doc::*;
use crate::engine::*;
use crate::entry::*;
use crate::evidence::*;
use crate::explore::*;
use crate::pure::{did_you_mean_spec, kinds_phrase_spec};
use crate::rec::*;
use mc_desc::emit::ty_str;
use serde_json::json;
use std::collections::{BTreeSet, HashSet};
use std::sync::atomic::{AtomicUsize, Ordering};

fn key_ok(k: &str) -> bool {
    // the empty key is unambiguous too: it renders as an empty segment (`..k` / `.k` for query
    // parameters), which no other path over this alphabet produces
    k.chars().all(|c| c.is_ascii_alphabetic() || c == '_')
}

/// Keys restricted to characters that make the rendered path unambiguous;
/// string leaves without backticks.
fn unambiguous(d: &Doc) -> bool {
    match d {
        Doc::Str(s) => !s.contains('`'),
        Doc::Seq(v) => v.iter().all(unambiguous),
        Doc::Obj(m) => m.iter().all(|(k, v)| !k.contains('`') && unambiguous(v)),
        _ => true,
    }
}

/// The keys on the path of the report are what has to be unambiguous; member names inside a
/// quoted offending value may be anything (they are JSON-escaped there).
fn path_unambiguous(ev: &Event) -> bool {
    ev.loc().map(|l| l.iter().all(|s| !matches!(s, Step::Key(k) if !key_ok(k)))).unwrap_or(true)
}

fn path_json(loc: &[Step]) -> String {
    let mut s = String::new();
    for st in loc {
        match st {
            Step::Key(k) => {
                s.push('.');
                s.push_str(k);
            }
            Step::Index(i) => s.push_str(&format!("[{i}]")),
        }
    }
    s
}

fn path_query(loc: &[Step]) -> String {
    let p = path_json(loc);
    // query parameters: no leading dot (a leading index keeps its bracket)
    p.strip_prefix('.').map(|x| x.to_string()).unwrap_or(p)
}

fn at(loc: &[Step], article: &str, query: bool) -> String {
    if loc.is_empty() {
        String::new()
    } else {
        format!(" {article} `{}`", if query { path_query(loc) } else { path_json(loc) })
    }
}

fn one_of(accepted: &[String]) -> String {
    accepted.iter().map(|a| format!("`{a}`")).collect::<Vec<_>>().join(", ")
}

fn json_text(d: &Doc) -> String {
    serde_json::to_string(&d.to_json()).unwrap()
}

fn found_json(d: &Doc) -> String {
    // a float without a JSON form (only the second source can present one) is rendered as the JSON
    // value it becomes: null
    if matches!(d, Doc::Float(f) if !f.is_finite()) {
        return "null".to_string();
    }
    match d.kind() {
        Kind::Null => "null".to_string(),
        k => format!("{}: `{}`", kinds_phrase_spec(&[k].into_iter().collect::<BTreeSet<_>>()), json_text(d)),
    }
}

fn found_query(d: &Doc) -> String {
    match d {
        Doc::Null => "null".into(),
        Doc::Bool(b) => format!("a boolean: `{b}`"),
        Doc::Int(u) => format!("an integer: `{u}`"),
        Doc::Neg(i) => format!("an integer: `{i}`"),
        Doc::Float(f) => format!("a number: `{f}`"),
        Doc::Str(s) => format!("a string: `{s}`"),
        Doc::Seq(_) => "multiple values".into(),
        Doc::Obj(_) => "multiple parameters".into(),
    }
}

fn foreign_text(src: &ForeignSrc) -> String {
    match src {
        ForeignSrc::Conv { fn_name, arg } => ConvErr { fn_name: fn_name.clone(), arg: arg.clone() }.to_string(),
        ForeignSrc::Validate { sum } => ValErr { sum: *sum }.to_string(),
    }
}

/// The message that describes report `ev`, built independently.
pub fn expected_message(ev: &Event, query: bool) -> String {
    match ev {
        Event::Foreign { src, loc, .. } => {
            format!("Invalid value{}: {}", at(loc, if query { "in parameter" } else { "at" }, query), foreign_text(src))
        }
        Event::Report { kind, loc, .. } => match kind {
            RKind::IncorrectValueKind { actual, accepted } => {
                let set: BTreeSet<Kind> = accepted.iter().copied().collect();
                if query {
                    format!(
                        "Invalid value type{}: expected a string, but found {}",
                        at(loc, "for parameter", true),
                        found_query(actual)
                    )
                } else {
                    format!(
                        "Invalid value type{}: expected {}, but found {}",
                        at(loc, "at", false),
                        kinds_phrase_spec(&set),
                        found_json(actual)
                    )
                }
            }
            RKind::MissingField { field } => {
                format!("Missing {} `{field}`{}", if query { "parameter" } else { "field" }, at(loc, "inside", query))
            }
            RKind::UnknownKey { key, accepted } => {
                let acc: Vec<&str> = accepted.iter().map(|s| s.as_str()).collect();
                format!(
                    "Unknown {} `{key}`{}: {}expected one of {}",
                    if query { "parameter" } else { "field" },
                    at(loc, "inside", query),
                    did_you_mean_spec(key, &acc),
                    one_of(accepted)
                )
            }
            RKind::UnknownValue { value, accepted } => {
                let acc: Vec<&str> = accepted.iter().map(|s| s.as_str()).collect();
                format!(
                    "Unknown value `{value}`{}: {}expected one of {}",
                    at(loc, if query { "for parameter" } else { "at" }, query),
                    did_you_mean_spec(value, &acc),
                    one_of(accepted)
                )
            }
            RKind::BadSequenceLen { actual, expected } => {
                let n = match actual {
                    Doc::Seq(v) => v.len(),
                    _ => 0,
                };
                format!(
                    "Invalid array len{}. Received {n} elements instead of {expected}: `{}`",
                    at(loc, if query { "for parameter" } else { "at" }, query),
                    json_text(actual)
                )
            }
            RKind::Unexpected { msg } => {
                format!("Invalid value{}: {msg}", at(loc, if query { "in parameter" } else { "at" }, query))
            }
        },
        _ => unreachable!(),
    }
}

/// Content requirements that do not depend on the wording: the path token read
/// back from a JsonError message resolves in the payload to the value quoted.
fn json_path_resolves(msg: &str, payload: &Doc, ev: &Event) -> Result<(), String> {
    let Event::Report { kind: RKind::IncorrectValueKind { .. }, loc, .. } = ev else { return Ok(()) };
    if loc.is_empty() {
        return Ok(());
    }
    // first backticked token is the path, last backticked token the quoted JSON
    let toks: Vec<&str> = msg.split('`').enumerate().filter(|(i, _)| i % 2 == 1).map(|(_, s)| s).collect();
    let Some(path) = toks.first() else { return Err("message quotes no path".into()) };
    // read the path back
    let mut steps: Vec<Step> = vec![];
    let mut rest = *path;
    while !rest.is_empty() {
        if let Some(r) = rest.strip_prefix('.') {
            let end = r.find(|c| c == '.' || c == '[').unwrap_or(r.len());
            steps.push(Step::Key(r[..end].to_string()));
            rest = &r[end..];
        } else if let Some(r) = rest.strip_prefix('[') {
            let end = r.find(']').ok_or("unterminated index in path")?;
            steps.push(Step::Index(r[..end].parse().map_err(|_| "non-numeric index in path")?));
            rest = &r[end + 1..];
        } else {
            return Err(format!("path token {path:?} cannot be read back"));
        }
    }
    let Some(at) = payload.resolve(&steps) else {
        return Err(format!("path {path} read back from the message does not exist in the payload"));
    };
    if *at != Doc::Null && !matches!(at, Doc::Float(f) if !f.is_finite()) {
        let quoted = toks.last().unwrap();
        let parsed: serde_json::Value =
            serde_json::from_str(quoted).map_err(|_| format!("quoted value {quoted:?} is not JSON text"))?;
        if parsed != at.to_json() {
            return Err(format!("message quotes {quoted} but the payload holds {} at {path}", at.text()));
        }
    }
    Ok(())
}

pub fn run_c14(e: &Engine) -> i32 {
    let rec = Recorder::new("C14", e.tier);
    let ks = first_report_pass(e, &rec, "C14");
    direct_sweep(&rec);
    // the messages must not depend on what was described before on the same thread
    crate::history::run_history(e, &rec, "C14", &|r| e.cat.ty_generic(&r.ty), true);
    rec.set_extra("error_kinds_seen_(error type:kind:depth)", json!(ks));
    finish_c14(&rec)
}

/// The built-in always-stop error types against the keep-going run: they fail iff it reports
/// something, and what they return describes its *first* report (C14; also the last clause of C03).
pub fn first_report_pass(e: &Engine, rec: &Recorder, prop: &str) -> Vec<String> {
    let roots: Vec<usize> = (0..e.cat.roots.len()).filter(|i| e.entries[*i].run_json.is_some()).collect();
    rec.set_extra("types", json!(roots.len()));
    let next = AtomicUsize::new(0);
    let kinds_seen = std::sync::Mutex::new(HashSet::<String>::new());
    std::thread::scope(|s| {
        for _ in 0..e.threads {
            s.spawn(|| {
                silence_panics();
                loop {
                    let n = next.fetch_add(1, Ordering::SeqCst);
                    if n >= roots.len() {
                        break;
                    }
                    let ri = roots[n];
                    let root = &e.cat.roots[ri];
                    let entry = &e.entries[ri];
                    let tystr = ty_str(&root.ty, e.cat);
                    let subject = format!("{tystr} [{}: {}]", root.group, root.note);
                    let (mut docs, tr) = e.payloads(&root.ty, &rec, &subject);
                    // floats whose text differs between renderings (integral values, exponents,
                    // negative zero, many digits) at every leaf of the first bases
                    {
                        let g = crate::space::Gen::new(e.cat);
                        for b in g.bases(&root.ty).into_iter().take(2) {
                            let mut ls = vec![];
                            leaf_positions(&b, &mut vec![], &mut ls);
                            for l in ls.iter().take(12) {
                                for f in [2.0f64, -0.0, 1e21, 1e-7, -1.0e300, 0.1 + 0.2, 255.0, 16777217.0] {
                                    let mut d = b.clone();
                                    *d.resolve_mut(l).unwrap() = Doc::Float(f);
                                    docs.push(d);
                                }
                            }
                        }
                    }
                    // containers that hold a non-finite float (second source only) where another kind
                    // is expected: the message quotes the whole container, the float in it as `null`
                    let mut cases: Vec<(Src, Doc)> = docs.into_iter().map(|d| (Src::Json, d)).collect();
                    {
                        let g = crate::space::Gen::new(e.cat);
                        for b in g.bases(&root.ty).into_iter().take(2) {
                            let mut ls = vec![];
                            leaf_positions(&b, &mut vec![], &mut ls);
                            for l in ls.iter().take(8) {
                                for repl in [
                                    Doc::Seq(vec![Doc::Float(f64::NAN), Doc::Int(1)]),
                                    Doc::Obj(vec![("x".to_string(), Doc::Seq(vec![Doc::Float(f64::INFINITY)])), ("y".to_string(), Doc::Int(2))]),
                                    Doc::Seq(vec![Doc::Float(1.5), Doc::Float(f64::NEG_INFINITY), Doc::s("t")]),
                                ] {
                                    let mut d = b.clone();
                                    *d.resolve_mut(l).unwrap() = repl;
                                    cases.push((Src::Ov, d));
                                }
                            }
                        }
                    }
                    let mut states = 0u64;
                    let mut execs = 0u64;
                    let mut sigs: HashSet<u64> = HashSet::new();
                    let mut local_kinds: HashSet<String> = HashSet::new();
                    let mut bad = 0;
                    for (src, doc) in &cases {
                        let src = *src;
                        if !unambiguous(doc) {
                            continue;
                        }
                        let keep = execute(entry, src, doc, &Script::keep_going());
                        execs += 1;
                        if keep.panicked.is_some() {
                            continue;
                        }
                        let first = keep.events.iter().find(|ev| ev.report_id().is_some());
                        if let Some(f) = first {
                            // reports about a key quote it verbatim: such keys must be unambiguous too
                            let quoted_ok = match f {
                                Event::Report { kind: RKind::UnknownKey { key, .. }, .. } => key_ok(key),
                                Event::Report { kind: RKind::MissingField { field }, .. } => key_ok(field),
                                _ => true,
                            };
                            if !path_unambiguous(f) || !quoted_ok {
                                continue;
                            }
                        }
                        states += 1;
                        for (query, run) in [(false, entry.run_json.unwrap()), (true, entry.run_query.unwrap())] {
                            begin(&Script::keep_going());
                            let r = std::panic::catch_unwind(|| run(src, doc));
                            let _ = end();
                            execs += 1;
                            let Ok(r) = r else {
                                // no message at all: the error type panicked while describing the report
                                rec.violation(Violation {
                                    property: prop.into(),
                                    subject: subject.clone(),
                                    message: format!("{} panicked instead of returning a result\n  payload: {}", if query { "deserialize with QueryParamError" } else { "deserialize with JsonError" }, doc.text()),
                                    replay: json!({"kind": "message", "root": ri, "type": tystr, "query": query, "source": format!("{src:?}"), "payload": doc_to_tagged(doc)}),
                                });
                                bad += 1;
                                continue;
                            };
                            let err: Option<String> = match (&r, first) {
                                (Ok(v), None) => {
                                    if keep.result.as_ref().ok() != Some(v) {
                                        Some("succeeds with another value than the recording run".into())
                                    } else {
                                        None
                                    }
                                }
                                (Ok(_), Some(f)) => Some(format!("succeeds although the keep-going run reports {f:?}")),
                                (Err(m), None) => Some(format!("fails with {m:?} although nothing is reported")),
                                (Err(m), Some(f)) => {
                                    let want = expected_message(f, query);
                                    sigs.insert(hash64(&(query, m)));
                                    local_kinds.insert(format!(
                                        "{}:{}:{}",
                                        if query { "query" } else { "json" },
                                        match f {
                                            Event::Report { kind, .. } => kind.name(),
                                            _ => "Foreign",
                                        },
                                        if f.loc().map(|l| l.is_empty()).unwrap_or(true) { "root" } else { "nested" }
                                    ));
                                    if *m != want {
                                        Some(format!("message is\n    {m:?}\n  but the first keep-going report {f:?} is described by\n    {want:?}"))
                                    } else if !query {
                                        json_path_resolves(m, doc, f).err()
                                    } else {
                                        None
                                    }
                                }
                            };
                            if let Some(m) = err {
                                rec.violation(Violation {
                                    property: prop.into(),
                                    subject: subject.clone(),
                                    message: format!("{} {m}\n  payload: {}", if query { "QueryParamError" } else { "JsonError" }, doc.text()),
                                    replay: json!({"kind": "message", "root": ri, "type": tystr, "query": query, "source": format!("{src:?}"), "payload": doc_to_tagged(doc)}),
                                });
                                bad += 1;
                            } else if rec.want_sample() {
                                if let (Err(m), Some(_)) = (&r, first) {
                                    rec.sample(json!({"type": tystr, "payload": doc.text(), "error_type": if query {"QueryParamError"} else {"JsonError"}, "message": m}));
                                }
                            }
                        }
                        if bad >= 3 {
                            break;
                        }
                    }
                    rec.add_counts(states, tr as u64, execs);
                    rec.add_signatures(&sigs, &sigs);
                    kinds_seen.lock().unwrap().extend(local_kinds);
                }
            });
        }
    });
    let mut ks: Vec<String> = kinds_seen.into_inner().unwrap().into_iter().collect();
    ks.sort();
    ks
}

fn leaf_positions(d: &Doc, cur: &mut Loc, out: &mut Vec<Loc>) {
    match d {
        Doc::Obj(m) => {
            for (k, v) in m {
                cur.push(Step::Key(k.clone()));
                leaf_positions(v, cur, out);
                cur.pop();
            }
        }
        Doc::Seq(v) => {
            for (i, x) in v.iter().enumerate() {
                cur.push(Step::Index(i));
                leaf_positions(x, cur, out);
                cur.pop();
            }
        }
        _ => out.push(cur.clone()),
    }
}

fn finish_c14(rec: &Recorder) -> i32 {
    rec.finish(
        "model_checking",
        "states = (catalogue type usable with any error type, payload) from the fault closure and all small documents, restricted to keys over [A-Za-z_] and string leaves without backticks. Per state: one keep-going run with the recording error type gives the first report r; the real JsonError and QueryParamError runs must fail iff r exists, and their message must equal the independent rendering of r: path rendered from the root (absent at the root; query parameters without the leading dot), the offending value as JSON text, kinds phrase (C17 spec), missing field / unknown key / unknown value with every accepted alternative in order, a did-you-mean clause iff the C18 spec yields one, received and expected lengths, the detail message verbatim. For JsonError the path read back from the message is resolved in the payload and must hold the quoted value. distinct = distinct messages.",
        &[
            "the fixed words of the messages are those pinned by the repository's snapshot tests (DESIGN.md Appendix B); content is rendered independently",
            "exhaustive only within the stated alphabets and bounds",
        ],
    )
}


/// Hand-written `Deserr` impls may pass *any* accepted list, value and location to the error
/// type: the built-in error types are called directly with every subset of kinds × a value of
/// every kind × several locations (and the other error kinds with awkward names), and must
/// render the report they were given.
fn direct_sweep(rec: &Recorder) {
    use deserr::{DeserializeError, ErrorKind, IntoValue, ValuePointerRef};
    use std::ops::ControlFlow;
    let values = [
        Doc::Null,
        Doc::Bool(false),
        Doc::Int(3),
        Doc::Neg(-3),
        Doc::Float(2.5),
        Doc::s("txt"),
        Doc::Seq(vec![Doc::Int(1), Doc::s("q\"")]),
        Doc::Obj(vec![("the \"best\"".into(), Doc::Int(1)), ("c:\\temp\t".into(), Doc::Null)]),
    ];
    let locs: Vec<Loc> = vec![vec![], vec![Step::Key("a".into())], vec![Step::Index(2), Step::Key("b".into()), Step::Index(0)]];
    let mut n = 0u64;
    let msg_of = |cf: ControlFlow<deserr::errors::JsonError, deserr::errors::JsonError>| match cf {
        ControlFlow::Break(e) | ControlFlow::Continue(e) => e.to_string(),
    };
    let qmsg_of = |cf: ControlFlow<deserr::errors::QueryParamError, deserr::errors::QueryParamError>| match cf {
        ControlFlow::Break(e) | ControlFlow::Continue(e) => e.to_string(),
    };
    for loc in &locs {
        let mut check = |kind_json: &dyn Fn(ValuePointerRef) -> (String, String), ev: Event| {
            n += 2;
            with_loc(loc, &mut |l| {
                let (j, q) = kind_json(l);
                for (query, got) in [(false, j), (true, q)] {
                    let want = expected_message(&ev, query);
                    if got != want {
                        rec.violation(Violation {
                            property: "C14".into(),
                            subject: format!("direct call, {}", if query { "QueryParamError" } else { "JsonError" }),
                            message: format!("message is\n    {got:?}\n  but the report {ev:?} is described by\n    {want:?}"),
                            replay: json!({"kind": "c14-direct", "event": format!("{ev:?}")}),
                        });
                    }
                }
            });
        };
        for mask in 0u32..256 {
            let kinds: Vec<Kind> = (0..8).filter(|i| mask & (1 << i) != 0).map(|i| Kind::ALL[i]).collect();
            let accepted: Vec<deserr::ValueKind> = kinds.iter().map(|k| k.to_deserr()).collect();
            for v in &values {
                let ev = Event::Report {
                    id: 1,
                    on: 0,
                    kind: RKind::IncorrectValueKind { actual: v.clone(), accepted: kinds.clone() },
                    loc: loc.clone(),
                    self_ids: vec![],
                    brk: true,
                    answer_ignored: false,
                };
                check(
                    &|l| {
                        (
                            msg_of(deserr::errors::JsonError::error::<Doc>(None, ErrorKind::IncorrectValueKind { actual: v.clone().into_value(), accepted: &accepted }, l)),
                            qmsg_of(deserr::errors::QueryParamError::error::<Doc>(None, ErrorKind::IncorrectValueKind { actual: v.clone().into_value(), accepted: &accepted }, l)),
                        )
                    },
                    ev,
                );
            }
        }
        let names = ["kind", "fooo", "fo", "日本語の鍵", ""];
        let lists: Vec<Vec<&str>> = vec![vec![], vec!["foo"], vec!["fooa", "foob", "foo"], vec!["a", "b", "c", "d", "e", "f", "g"]];
        for name in names {
            let ev = Event::Report { id: 1, on: 0, kind: RKind::MissingField { field: name.into() }, loc: loc.clone(), self_ids: vec![], brk: true, answer_ignored: false };
            check(
                &|l| {
                    (
                        msg_of(deserr::errors::JsonError::error::<Doc>(None, ErrorKind::MissingField { field: name }, l)),
                        qmsg_of(deserr::errors::QueryParamError::error::<Doc>(None, ErrorKind::MissingField { field: name }, l)),
                    )
                },
                ev,
            );
            for list in &lists {
                let acc: Vec<String> = list.iter().map(|s| s.to_string()).collect();
                let ev = Event::Report { id: 1, on: 0, kind: RKind::UnknownKey { key: name.into(), accepted: acc.clone() }, loc: loc.clone(), self_ids: vec![], brk: true, answer_ignored: false };
                check(
                    &|l| {
                        (
                            msg_of(deserr::errors::JsonError::error::<Doc>(None, ErrorKind::UnknownKey { key: name, accepted: list }, l)),
                            qmsg_of(deserr::errors::QueryParamError::error::<Doc>(None, ErrorKind::UnknownKey { key: name, accepted: list }, l)),
                        )
                    },
                    ev,
                );
                let ev = Event::Report { id: 1, on: 0, kind: RKind::UnknownValue { value: name.into(), accepted: acc }, loc: loc.clone(), self_ids: vec![], brk: true, answer_ignored: false };
                check(
                    &|l| {
                        (
                            msg_of(deserr::errors::JsonError::error::<Doc>(None, ErrorKind::UnknownValue { value: name, accepted: list }, l)),
                            qmsg_of(deserr::errors::QueryParamError::error::<Doc>(None, ErrorKind::UnknownValue { value: name, accepted: list }, l)),
                        )
                    },
                    ev,
                );
            }
        }
        for seq in [vec![], vec![Doc::Int(1)], vec![Doc::Obj(vec![("q\"".into(), Doc::Null)]), Doc::s("x")]] {
            for expected in [0usize, 2, 3] {
                let ev = Event::Report { id: 1, on: 0, kind: RKind::BadSequenceLen { actual: Doc::Seq(seq.clone()), expected }, loc: loc.clone(), self_ids: vec![], brk: true, answer_ignored: false };
                check(
                    &|l| {
                        (
                            msg_of(deserr::errors::JsonError::error::<Doc>(None, ErrorKind::BadSequenceLen { actual: seq.clone(), expected }, l)),
                            qmsg_of(deserr::errors::QueryParamError::error::<Doc>(None, ErrorKind::BadSequenceLen { actual: seq.clone(), expected }, l)),
                        )
                    },
                    ev,
                );
            }
        }
        for m in ["", "plain", "ends with space ", "multi\nline"] {
            let ev = Event::Report { id: 1, on: 0, kind: RKind::Unexpected { msg: m.into() }, loc: loc.clone(), self_ids: vec![], brk: true, answer_ignored: false };
            check(
                &|l| {
                    (
                        msg_of(deserr::errors::JsonError::error::<Doc>(None, ErrorKind::Unexpected { msg: m.to_string() }, l)),
                        qmsg_of(deserr::errors::QueryParamError::error::<Doc>(None, ErrorKind::Unexpected { msg: m.to_string() }, l)),
                    )
                },
                ev,
            );
        }
    }
    rec.add_counts(n / 2, n, n);
    rec.set_extra("direct_error_type_calls", json!(n));
}

/// Builds a real `ValuePointerRef` for `loc` and calls `f` with it.
fn with_loc(loc: &[Step], f: &mut dyn FnMut(deserr::ValuePointerRef)) {
    fn go(cur: deserr::ValuePointerRef, rest: &[Step], f: &mut dyn FnMut(deserr::ValuePointerRef)) {
        match rest.split_first() {
            None => f(cur),
            Some((Step::Key(k), r)) => go(cur.push_key(k), r, f),
            Some((Step::Index(i), r)) => go(cur.push_index(*i), r, f),
        }
    }
    go(deserr::ValuePointerRef::Origin, loc, f)
}
