//! C14 — the messages of JsonError and QueryParamError describe the first
//! report of the keep-going run (DESIGN.md §5 C14, Appendix B).

use crate::doc::*;
use crate::engine::*;
use crate::entry::*;
use crate::evidence::*;
use crate::explore::*;
use crate::pure::{did_you_mean_spec, kinds_phrase_spec};
use crate::rec::*;
use mc_desc::emit::ty_str;
use serde_json::json;
use std::collections::{BTreeSet, HashSet};
use std::sync::atomic::{AtomicUsize, Ordering};

fn key_ok(k: &str) -> bool {
    !k.is_empty() && k.chars().all(|c| c.is_ascii_alphabetic() || c == '_')
}

/// Keys restricted to characters that make the rendered path unambiguous;
/// string leaves without backticks.
fn unambiguous(d: &Doc) -> bool {
    match d {
        Doc::Str(s) => !s.contains('`'),
        Doc::Seq(v) => v.iter().all(unambiguous),
        Doc::Obj(m) => m.iter().all(|(k, v)| key_ok(k) && unambiguous(v)),
        _ => true,
    }
}

fn path_json(loc: &[Step]) -> String {
    let mut s = String::new();
    for st in loc {
        match st {
            Step::Key(k) => {
                s.push('.');
                s.push_str(k);
            }
            Step::Index(i) => s.push_str(&format!("[{i}]")),
        }
    }
    s
}

fn path_query(loc: &[Step]) -> String {
    let p = path_json(loc);
    // query parameters: no leading dot (a leading index keeps its bracket)
    p.strip_prefix('.').map(|x| x.to_string()).unwrap_or(p)
}

fn at(loc: &[Step], article: &str, query: bool) -> String {
    if loc.is_empty() {
        String::new()
    } else {
        format!(" {article} `{}`", if query { path_query(loc) } else { path_json(loc) })
    }
}

fn one_of(accepted: &[String]) -> String {
    accepted.iter().map(|a| format!("`{a}`")).collect::<Vec<_>>().join(", ")
}

fn json_text(d: &Doc) -> String {
    serde_json::to_string(&d.to_json()).unwrap()
}

fn found_json(d: &Doc) -> String {
    match d.kind() {
        Kind::Null => "null".to_string(),
        k => format!("{}: `{}`", kinds_phrase_spec(&[k].into_iter().collect::<BTreeSet<_>>()), json_text(d)),
    }
}

fn found_query(d: &Doc) -> String {
    match d {
        Doc::Null => "null".into(),
        Doc::Bool(b) => format!("a boolean: `{b}`"),
        Doc::Int(u) => format!("an integer: `{u}`"),
        Doc::Neg(i) => format!("an integer: `{i}`"),
        Doc::Float(f) => format!("a number: `{f}`"),
        Doc::Str(s) => format!("a string: `{s}`"),
        Doc::Seq(_) => "multiple values".into(),
        Doc::Obj(_) => "multiple parameters".into(),
    }
}

fn foreign_text(src: &ForeignSrc) -> String {
    match src {
        ForeignSrc::Conv { fn_name, arg } => ConvErr { fn_name: fn_name.clone(), arg: arg.clone() }.to_string(),
        ForeignSrc::Validate { sum } => ValErr { sum: *sum }.to_string(),
    }
}

/// The message that describes report `ev`, built independently.
pub fn expected_message(ev: &Event, query: bool) -> String {
    match ev {
        Event::Foreign { src, loc, .. } => {
            format!("Invalid value{}: {}", at(loc, if query { "in parameter" } else { "at" }, query), foreign_text(src))
        }
        Event::Report { kind, loc, .. } => match kind {
            RKind::IncorrectValueKind { actual, accepted } => {
                let set: BTreeSet<Kind> = accepted.iter().copied().collect();
                if query {
                    format!(
                        "Invalid value type{}: expected a string, but found {}",
                        at(loc, "for parameter", true),
                        found_query(actual)
                    )
                } else {
                    format!(
                        "Invalid value type{}: expected {}, but found {}",
                        at(loc, "at", false),
                        kinds_phrase_spec(&set),
                        found_json(actual)
                    )
                }
            }
            RKind::MissingField { field } => {
                format!("Missing {} `{field}`{}", if query { "parameter" } else { "field" }, at(loc, "inside", query))
            }
            RKind::UnknownKey { key, accepted } => {
                let acc: Vec<&str> = accepted.iter().map(|s| s.as_str()).collect();
                format!(
                    "Unknown {} `{key}`{}: {}expected one of {}",
                    if query { "parameter" } else { "field" },
                    at(loc, "inside", query),
                    did_you_mean_spec(key, &acc),
                    one_of(accepted)
                )
            }
            RKind::UnknownValue { value, accepted } => {
                let acc: Vec<&str> = accepted.iter().map(|s| s.as_str()).collect();
                format!(
                    "Unknown value `{value}`{}: {}expected one of {}",
                    at(loc, if query { "for parameter" } else { "at" }, query),
                    did_you_mean_spec(value, &acc),
                    one_of(accepted)
                )
            }
            RKind::BadSequenceLen { actual, expected } => {
                let n = match actual {
                    Doc::Seq(v) => v.len(),
                    _ => 0,
                };
                format!(
                    "Invalid array len{}. Received {n} elements instead of {expected}: `{}`",
                    at(loc, if query { "for parameter" } else { "at" }, query),
                    json_text(actual)
                )
            }
            RKind::Unexpected { msg } => {
                format!("Invalid value{}: {msg}", at(loc, if query { "in parameter" } else { "at" }, query))
            }
        },
        _ => unreachable!(),
    }
}

/// Content requirements that do not depend on the wording: the path token read
/// back from a JsonError message resolves in the payload to the value quoted.
fn json_path_resolves(msg: &str, payload: &Doc, ev: &Event) -> Result<(), String> {
    let Event::Report { kind: RKind::IncorrectValueKind { .. }, loc, .. } = ev else { return Ok(()) };
    if loc.is_empty() {
        return Ok(());
    }
    // first backticked token is the path, last backticked token the quoted JSON
    let toks: Vec<&str> = msg.split('`').enumerate().filter(|(i, _)| i % 2 == 1).map(|(_, s)| s).collect();
    let Some(path) = toks.first() else { return Err("message quotes no path".into()) };
    // read the path back
    let mut steps: Vec<Step> = vec![];
    let mut rest = *path;
    while !rest.is_empty() {
        if let Some(r) = rest.strip_prefix('.') {
            let end = r.find(|c| c == '.' || c == '[').unwrap_or(r.len());
            steps.push(Step::Key(r[..end].to_string()));
            rest = &r[end..];
        } else if let Some(r) = rest.strip_prefix('[') {
            let end = r.find(']').ok_or("unterminated index in path")?;
            steps.push(Step::Index(r[..end].parse().map_err(|_| "non-numeric index in path")?));
            rest = &r[end + 1..];
        } else {
            return Err(format!("path token {path:?} cannot be read back"));
        }
    }
    let Some(at) = payload.resolve(&steps) else {
        return Err(format!("path {path} read back from the message does not exist in the payload"));
    };
    if *at != Doc::Null {
        let quoted = toks.last().unwrap();
        let parsed: serde_json::Value =
            serde_json::from_str(quoted).map_err(|_| format!("quoted value {quoted:?} is not JSON text"))?;
        if parsed != at.to_json() {
            return Err(format!("message quotes {quoted} but the payload holds {} at {path}", at.text()));
        }
    }
    Ok(())
}

pub fn run_c14(e: &Engine) -> i32 {
    let rec = Recorder::new("C14", e.tier);
    let roots: Vec<usize> = (0..e.cat.roots.len()).filter(|i| e.entries[*i].run_json.is_some()).collect();
    rec.set_extra("types", json!(roots.len()));
    let next = AtomicUsize::new(0);
    let kinds_seen = std::sync::Mutex::new(HashSet::<String>::new());
    std::thread::scope(|s| {
        for _ in 0..e.threads {
            s.spawn(|| {
                silence_panics();
                loop {
                    let n = next.fetch_add(1, Ordering::SeqCst);
                    if n >= roots.len() {
                        break;
                    }
                    let ri = roots[n];
                    let root = &e.cat.roots[ri];
                    let entry = &e.entries[ri];
                    let tystr = ty_str(&root.ty, e.cat);
                    let subject = format!("{tystr} [{}: {}]", root.group, root.note);
                    let (docs, tr) = e.payloads(&root.ty, &rec, &subject);
                    let mut states = 0u64;
                    let mut execs = 0u64;
                    let mut sigs: HashSet<u64> = HashSet::new();
                    let mut local_kinds: HashSet<String> = HashSet::new();
                    let mut bad = 0;
                    for doc in &docs {
                        if !unambiguous(doc) {
                            continue;
                        }
                        let keep = execute(entry, Src::Json, doc, &Script::keep_going());
                        execs += 1;
                        if keep.panicked.is_some() {
                            continue;
                        }
                        let first = keep.events.iter().find(|ev| ev.report_id().is_some());
                        states += 1;
                        for (query, run) in [(false, entry.run_json.unwrap()), (true, entry.run_query.unwrap())] {
                            let r = std::panic::catch_unwind(|| run(doc));
                            execs += 1;
                            let Ok(r) = r else { continue };
                            let err: Option<String> = match (&r, first) {
                                (Ok(v), None) => {
                                    if keep.result.as_ref().ok() != Some(v) {
                                        Some("succeeds with another value than the recording run".into())
                                    } else {
                                        None
                                    }
                                }
                                (Ok(_), Some(f)) => Some(format!("succeeds although the keep-going run reports {f:?}")),
                                (Err(m), None) => Some(format!("fails with {m:?} although nothing is reported")),
                                (Err(m), Some(f)) => {
                                    let want = expected_message(f, query);
                                    sigs.insert(hash64(&(query, m)));
                                    local_kinds.insert(format!(
                                        "{}:{}:{}",
                                        if query { "query" } else { "json" },
                                        match f {
                                            Event::Report { kind, .. } => kind.name(),
                                            _ => "Foreign",
                                        },
                                        if f.loc().map(|l| l.is_empty()).unwrap_or(true) { "root" } else { "nested" }
                                    ));
                                    if *m != want {
                                        Some(format!("message is\n    {m:?}\n  but the first keep-going report {f:?} is described by\n    {want:?}"))
                                    } else if !query {
                                        json_path_resolves(m, doc, f).err()
                                    } else {
                                        None
                                    }
                                }
                            };
                            if let Some(m) = err {
                                rec.violation(Violation {
                                    property: "C14".into(),
                                    subject: subject.clone(),
                                    message: format!("{} {m}\n  payload: {}", if query { "QueryParamError" } else { "JsonError" }, doc.text()),
                                    replay: json!({"kind": "message", "root": ri, "type": tystr, "query": query, "payload": doc_to_tagged(doc)}),
                                });
                                bad += 1;
                            } else if rec.want_sample() {
                                if let (Err(m), Some(_)) = (&r, first) {
                                    rec.sample(json!({"type": tystr, "payload": doc.text(), "error_type": if query {"QueryParamError"} else {"JsonError"}, "message": m}));
                                }
                            }
                        }
                        if bad >= 3 {
                            break;
                        }
                    }
                    rec.add_counts(states, tr as u64, execs);
                    rec.add_signatures(&sigs, &sigs);
                    kinds_seen.lock().unwrap().extend(local_kinds);
                }
            });
        }
    });
    let mut ks: Vec<String> = kinds_seen.into_inner().unwrap().into_iter().collect();
    ks.sort();
    rec.set_extra("error_kinds_seen_(error type:kind:depth)", json!(ks));
    rec.finish(
        "model_checking",
        "states = (catalogue type usable with any error type, payload) from the fault closure and all small documents, restricted to keys over [A-Za-z_] and string leaves without backticks. Per state: one keep-going run with the recording error type gives the first report r; the real JsonError and QueryParamError runs must fail iff r exists, and their message must equal the independent rendering of r: path rendered from the root (absent at the root; query parameters without the leading dot), the offending value as JSON text, kinds phrase (C17 spec), missing field / unknown key / unknown value with every accepted alternative in order, a did-you-mean clause iff the C18 spec yields one, received and expected lengths, the detail message verbatim. For JsonError the path read back from the message is resolved in the payload and must hold the quoted value. distinct = distinct messages.",
        &[
            "the fixed words of the messages are those pinned by the repository's snapshot tests (DESIGN.md Appendix B); content is rendered independently",
            "exhaustive only within the stated alphabets and bounds",
        ],
    )
}
