//! Self-relative invariance oracles: C09(b) — unknown keys have no influence
//! without `deny_unknown_fields`; C15 — object member order never changes the
//! outcome.

use crate::doc::*;
use crate::engine::*;
use crate::entry::*;
use crate::evidence::*;
use crate::explore::*;
use crate::rec::*;
use crate::reference::{field_key, parse_key};
use crate::space::*;
use mc_desc::emit::ty_str;
use mc_desc::*;
use serde_json::json;
use std::collections::HashSet;
use std::sync::atomic::{AtomicUsize, Ordering};

/// Order-insensitive outcome: value, multiset of reports (kind, location,
/// detail), multiset of user calls.
#[derive(Clone, Debug, PartialEq, Eq, Hash)]
pub struct Signature {
    pub value: Option<String>,
    pub reports: Vec<String>,
    pub calls: Vec<String>,
}

pub fn signature(out: &Outcome) -> Signature {
    signature_masked(out, None)
}

/// As `signature`, but reports made at an ancestor-or-self of `mask` do not
/// compare the payload value they quote (it legitimately contains whatever is
/// stored below that position).
pub fn signature_masked(out: &Outcome, mask: Option<&Loc>) -> Signature {
    let masked = |loc: &Loc| mask.map(|m| loc.len() <= m.len() && m[..loc.len()] == loc[..]).unwrap_or(false);
    let value = out.result.as_ref().ok().map(|v| v.text());
    let mut reports: Vec<String> = out
        .events
        .iter()
        .filter_map(|e| match e {
            Event::Report { kind, loc, on, .. } => Some(format!(
                "{}@{} on{}: {}",
                kind.name(),
                loc_str(loc),
                on,
                if masked(loc) { kind_detail_masked(kind) } else { kind_detail(kind) }
            )),
            Event::Foreign { src, loc, on, .. } => Some(format!("foreign@{} on{}: {:?}", loc_str(loc), on, src)),
            _ => None,
        })
        .collect();
    reports.sort();
    let mut calls: Vec<String> = out
        .events
        .iter()
        .filter_map(|e| match e {
            Event::UserFn(u) => Some(format!("{u:?}")),
            _ => None,
        })
        .collect();
    calls.sort();
    Signature { value, reports, calls }
}

fn kind_detail_masked(k: &RKind) -> String {
    match k {
        RKind::IncorrectValueKind { accepted, .. } => format!("<quoted> {:?}", accepted),
        RKind::BadSequenceLen { expected, actual } => format!(
            "<quoted, {} elements> {}",
            match actual {
                Doc::Seq(v) => v.len(),
                _ => 0,
            },
            expected
        ),
        other => format!("{other:?}"),
    }
}

fn kind_detail(k: &RKind) -> String {
    match k {
        RKind::IncorrectValueKind { actual, accepted } => format!("{} {:?}", actual.canonical().text(), accepted),
        RKind::BadSequenceLen { actual, expected } => format!("{} {}", actual.canonical().text(), expected),
        other => format!("{other:?}"),
    }
}

/// Object positions of `doc` that are governed by a struct / tagged enum
/// without `deny_unknown_fields`, with the keys that *do* mean something there.
fn open_positions(cat: &Catalogue, ty: &Ty, doc: &Doc, loc: &mut Loc, out: &mut Vec<(Loc, Vec<String>)>, depth: usize) {
    if depth > 6 {
        return;
    }
    match (ty, doc) {
        (Ty::P(t) | Ty::Bx(t), _) => open_positions(cat, t, doc, loc, out, depth),
        (Ty::Opt(t), d) if *d != Doc::Null => open_positions(cat, t, doc, loc, out, depth),
        (Ty::Vec(t) | Ty::HSet(t) | Ty::BSet(t) | Ty::Arr(t, _), Doc::Seq(v)) => {
            for (i, e) in v.iter().enumerate() {
                loc.push(Step::Index(i));
                open_positions(cat, t, e, loc, out, depth);
                loc.pop();
            }
        }
        (Ty::Tup(ts), Doc::Seq(v)) => {
            for (i, (t, e)) in ts.iter().zip(v).enumerate() {
                loc.push(Step::Index(i));
                open_positions(cat, t, e, loc, out, depth);
                loc.pop();
            }
        }
        (Ty::Map { val, key, .. }, Doc::Obj(m)) => {
            for (k, e) in m {
                if parse_key(*key, k).is_some() {
                    loc.push(Step::Key(k.clone()));
                    open_positions(cat, val, e, loc, out, depth);
                    loc.pop();
                }
            }
        }
        (Ty::Item(i), Doc::Obj(m)) => match &cat.items[*i] {
            Item::Struct(s) => {
                if s.deny == Deny::No {
                    let known: Vec<String> = s.fields.iter().filter(|f| !f.skip).map(|f| field_key(f, s.rename_all)).collect();
                    out.push((loc.clone(), known));
                }
                for f in s.fields.iter().filter(|f| !f.skip) {
                    let k = field_key(f, s.rename_all);
                    if let Some((_, e)) = m.iter().find(|(k2, _)| *k2 == k) {
                        loc.push(Step::Key(k));
                        open_positions(cat, &f.ty, e, loc, out, depth + 1);
                        loc.pop();
                    }
                }
            }
            Item::Enum(e) => {
                if let Some(tag) = &e.tag {
                    if e.deny == Deny::No {
                        let mut known: Vec<String> = vec![tag.clone()];
                        for v in &e.variants {
                            for f in v.fields.iter().flatten().filter(|f| !f.skip) {
                                known.push(field_key(f, v.rename_all));
                            }
                        }
                        out.push((loc.clone(), known));
                    }
                }
            }
            Item::Conv(c) => open_positions(cat, &c.via, doc, loc, out, depth + 1),
        },
        _ => {}
    }
}

impl<'a> Engine<'a> {
    fn par_roots(&self, roots: &[usize], f: &(dyn Fn(usize) + Sync)) {
        let next = AtomicUsize::new(0);
        std::thread::scope(|s| {
            for _ in 0..self.threads {
                s.spawn(|| {
                    silence_panics();
                    loop {
                        let n = next.fetch_add(1, Ordering::SeqCst);
                        if n >= roots.len() {
                            break;
                        }
                        f(roots[n]);
                    }
                });
            }
        });
    }
}

/// C09(b): outcome(p) = outcome(p ⊎ extras) at every open position.
pub fn run_extras(e: &Engine, rec: &Recorder) {
    let groups = ["A", "B1", "B2", "B3", "B4", "B5", "C2", "D", "E", "G"];
    let roots: Vec<usize> = (0..e.cat.roots.len()).filter(|i| groups.contains(&e.cat.roots[*i].group)).collect();
    let rich = e.tier == Tier::Thorough;
    let max_extras = 2;
    let values = [Doc::Int(9), Doc::s("s"), Doc::Null, Doc::Obj(vec![("zz".into(), Doc::Int(1))])];
    e.par_roots(&roots, &|ri| {
        let root = &e.cat.roots[ri];
        let entry = &e.entries[ri];
        let g = Gen::new(e.cat);
        let tystr = ty_str(&root.ty, e.cat);
        let subject = format!("{tystr} [{}: {}]", root.group, root.note);
        let cl = g.closure(&root.ty, if rich { 2 } else { 1 }, rich, 20_000);
        let mut states = 0u64;
        let mut trans = 0u64;
        let mut execs = 0u64;
        let mut sigs: HashSet<u64> = HashSet::new();
        let mut bad = 0;
        'docs: for (doc, _) in &cl.states {
            let mut pos = vec![];
            open_positions(e.cat, &root.ty, doc, &mut vec![], &mut pos, 0);
            if pos.is_empty() {
                continue;
            }
            states += 1;
            for src in [Src::Json, Src::Ov] {
                let base = execute(entry, src, doc, &Script::keep_going());
                execs += 1;
                sigs.insert(hash64(&(ri, &signature(&base))));
                for (ploc, known) in &pos {
                    let Some(Doc::Obj(m)) = doc.resolve(ploc) else { continue };
                    let base_sig = signature_masked(&base, Some(ploc));
                    // the universe of keys that must mean nothing here
                    let mut universe: Vec<String> = vec![];
                    for k in known {
                        for cand in [
                            format!("{k}x"),
                            format!("_{k}"),
                            format!(" {k}"),
                            format!("{k} "),
                            k.to_uppercase(),
                            k.to_lowercase(),
                            crate::reference::camel(k),
                        ] {
                            if !known.contains(&cand) && !universe.contains(&cand) && !m.iter().any(|(k2, _)| *k2 == cand) {
                                universe.push(cand);
                            }
                        }
                    }
                    // identifiers and skipped names of the governing struct
                    if let Some(extra) = idents_at(e.cat, &root.ty, doc, ploc) {
                        for cand in extra {
                            if !known.contains(&cand) && !universe.contains(&cand) && !m.iter().any(|(k2, _)| *k2 == cand) {
                                universe.push(cand);
                            }
                        }
                    }
                    universe.push("zz".to_string());
                    if !rich {
                        universe.truncate(10);
                    }
                    // all subsets of ≤ max_extras keys × values (same value for both keys of a pair,
                    // plus the mixed pair)
                    let mut extras: Vec<Vec<(String, Doc)>> = vec![];
                    for (i, k) in universe.iter().enumerate() {
                        for v in &values {
                            extras.push(vec![(k.clone(), v.clone())]);
                        }
                        if max_extras >= 2 {
                            for k2 in universe.iter().skip(i + 1) {
                                extras.push(vec![(k.clone(), values[0].clone()), (k2.clone(), values[1].clone())]);
                            }
                        }
                    }
                    for ex in extras {
                        let mut d2 = doc.clone();
                        if let Some(Doc::Obj(mm)) = d2.resolve_mut(ploc) {
                            for (k, v) in &ex {
                                mm.push((k.clone(), v.clone()));
                            }
                        }
                        let d2 = if src == Src::Json { d2.canonical() } else { d2 };
                        trans += 1;
                        let o2 = execute(entry, src, &d2, &Script::keep_going());
                        execs += 1;
                        let s2 = signature_masked(&o2, Some(ploc));
                        if s2 != base_sig && o2.panicked.is_none() && base.panicked.is_none() {
                            rec.violation(Violation {
                                property: "C09".into(),
                                subject: subject.clone(),
                                message: format!(
                                    "adding the unknown member(s) {:?} at {} changed the outcome although deny_unknown_fields is not set\n  payload: {}\n  without: {:?}\n  with:    {:?}",
                                    ex.iter().map(|(k, v)| format!("{k:?}: {}", v.text())).collect::<Vec<_>>(),
                                    loc_str(ploc),
                                    doc.text(),
                                    base_sig,
                                    s2
                                ),
                                replay: json!({"kind": "extras", "root": ri, "type": tystr, "source": format!("{src:?}"),
                                               "payload": doc_to_tagged(doc), "payload_with_extras": doc_to_tagged(&d2)}),
                            });
                            bad += 1;
                            if bad >= 3 {
                                break 'docs;
                            }
                        }
                    }
                }
            }
        }
        rec.add_counts(states, trans, execs);
        rec.add_signatures(&sigs, &sigs);
        rec.add_extra_count("extras_part_states", states);
        rec.add_extra_count("extras_part_transitions_(payload → payload ⊎ extras)", trans);
    });
}

/// Rust identifiers (incl. skipped fields) of the struct governing position `at`.
fn idents_at(cat: &Catalogue, ty: &Ty, doc: &Doc, at: &Loc) -> Option<Vec<String>> {
    fn go(cat: &Catalogue, ty: &Ty, doc: &Doc, rest: &[Step]) -> Option<Vec<String>> {
        match ty {
            Ty::P(t) | Ty::Bx(t) | Ty::Opt(t) => go(cat, t, doc, rest),
            Ty::Vec(t) | Ty::HSet(t) | Ty::BSet(t) | Ty::Arr(t, _) => match rest.split_first() {
                Some((Step::Index(i), r)) => go(cat, t, doc.resolve(&[Step::Index(*i)])?, r),
                _ => None,
            },
            Ty::Tup(ts) => match rest.split_first() {
                Some((Step::Index(i), r)) => go(cat, ts.get(*i)?, doc.resolve(&[Step::Index(*i)])?, r),
                _ => None,
            },
            Ty::Map { val, .. } => match rest.split_first() {
                Some((Step::Key(k), r)) => go(cat, val, doc.get(k)?, r),
                _ => None,
            },
            Ty::Item(i) => match &cat.items[*i] {
                Item::Struct(s) => match rest.split_first() {
                    None => Some(s.fields.iter().flat_map(|f| [f.ident.clone(), f.ident.to_lowercase()]).collect()),
                    Some((Step::Key(k), r)) => {
                        let f = s.fields.iter().find(|f| !f.skip && field_key(f, s.rename_all) == *k)?;
                        go(cat, &f.ty, doc.get(k)?, r)
                    }
                    _ => None,
                },
                Item::Enum(e) => {
                    if rest.is_empty() {
                        Some(e.variants.iter().flat_map(|v| v.fields.iter().flatten()).map(|f| f.ident.clone()).collect())
                    } else {
                        None
                    }
                }
                Item::Conv(c) => go(cat, &c.via, doc, rest),
            },
            _ => None,
        }
    }
    go(cat, ty, doc, at)
}

// -----------------------------------------------------------------------------------------
// C15 — permutations
// -----------------------------------------------------------------------------------------

fn permutations(n: usize) -> Vec<Vec<usize>> {
    fn go(n: usize, cur: &mut Vec<usize>, used: &mut Vec<bool>, out: &mut Vec<Vec<usize>>) {
        if cur.len() == n {
            out.push(cur.clone());
            return;
        }
        for i in 0..n {
            if !used[i] {
                used[i] = true;
                cur.push(i);
                go(n, cur, used, out);
                cur.pop();
                used[i] = false;
            }
        }
    }
    let mut out = vec![];
    go(n, &mut vec![], &mut vec![false; n], &mut out);
    out
}

/// All documents obtained by permuting the members of every object (product
/// over objects). Returns `None` if there are more than `cap` of them.
fn all_orders(d: &Doc, cap: usize) -> Option<Vec<Doc>> {
    match d {
        Doc::Seq(v) => {
            let mut acc: Vec<Vec<Doc>> = vec![vec![]];
            for e in v {
                let alts = all_orders(e, cap)?;
                let mut next = vec![];
                for a in &acc {
                    for x in &alts {
                        let mut b = a.clone();
                        b.push(x.clone());
                        next.push(b);
                    }
                }
                if next.len() > cap {
                    return None;
                }
                acc = next;
            }
            Some(acc.into_iter().map(Doc::Seq).collect())
        }
        Doc::Obj(m) => {
            let mut acc: Vec<Vec<(String, Doc)>> = vec![vec![]];
            for (k, e) in m {
                let alts = all_orders(e, cap)?;
                let mut next = vec![];
                for a in &acc {
                    for x in &alts {
                        let mut b = a.clone();
                        b.push((k.clone(), x.clone()));
                        next.push(b);
                    }
                }
                if next.len() > cap {
                    return None;
                }
                acc = next;
            }
            let perms = permutations(m.len());
            if acc.len() * perms.len() > cap {
                return None;
            }
            let mut out = vec![];
            for a in &acc {
                for p in &perms {
                    out.push(Doc::Obj(p.iter().map(|i| a[*i].clone()).collect()));
                }
            }
            Some(out)
        }
        d => Some(vec![d.clone()]),
    }
}

/// For every object with more than `max_members` members: the document with that
/// object reversed, rotated by every offset, and with every adjacent pair swapped
/// (all other objects in their given order). The original order comes first.
fn family_orders(d: &Doc, max_members: usize) -> Vec<Doc> {
    fn big_objects(d: &Doc, cur: &mut Loc, out: &mut Vec<(Loc, usize)>, max_members: usize) {
        match d {
            Doc::Seq(v) => {
                for (i, e) in v.iter().enumerate() {
                    cur.push(Step::Index(i));
                    big_objects(e, cur, out, max_members);
                    cur.pop();
                }
            }
            Doc::Obj(m) => {
                if m.len() > max_members {
                    out.push((cur.clone(), m.len()));
                }
                for (k, e) in m {
                    cur.push(Step::Key(k.clone()));
                    big_objects(e, cur, out, max_members);
                    cur.pop();
                }
            }
            _ => {}
        }
    }
    let mut objs = vec![];
    big_objects(d, &mut vec![], &mut objs, max_members);
    let mut out = vec![d.clone()];
    for (loc, n) in objs {
        let mut perms: Vec<Vec<usize>> = vec![];
        perms.push((0..n).rev().collect());
        for r in 1..n {
            perms.push((0..n).map(|i| (i + r) % n).collect());
        }
        for i in 0..n - 1 {
            let mut p: Vec<usize> = (0..n).collect();
            p.swap(i, i + 1);
            perms.push(p);
        }
        for p in perms {
            let mut d2 = d.clone();
            if let Some(Doc::Obj(m)) = d2.resolve_mut(&loc) {
                let old = m.clone();
                *m = p.iter().map(|i| old[*i].clone()).collect();
            }
            out.push(d2);
        }
    }
    out
}

fn colliding(cat: &Catalogue, ty: &Ty, d: &Doc, depth: usize) -> bool {
    if depth > 8 {
        return false;
    }
    match (ty, d) {
        (Ty::P(t) | Ty::Bx(t) | Ty::Opt(t), _) => colliding(cat, t, d, depth),
        (Ty::Vec(t) | Ty::HSet(t) | Ty::BSet(t) | Ty::Arr(t, _), Doc::Seq(v)) => v.iter().any(|e| colliding(cat, t, e, depth)),
        (Ty::Tup(ts), Doc::Seq(v)) => ts.iter().zip(v).any(|(t, e)| colliding(cat, t, e, depth)),
        (Ty::Map { key, val, .. }, Doc::Obj(m)) => {
            let parsed: Vec<String> = m.iter().filter_map(|(k, _)| parse_key(*key, k)).collect();
            let mut s = parsed.clone();
            s.sort();
            s.dedup();
            s.len() != parsed.len() || m.iter().any(|(_, e)| colliding(cat, val, e, depth))
        }
        (Ty::Item(i), Doc::Obj(m)) => match &cat.items[*i] {
            Item::Struct(s) => m.iter().any(|(k, e)| {
                s.fields.iter().any(|f| !f.skip && field_key(f, s.rename_all) == *k && colliding(cat, &f.ty, e, depth + 1))
            }),
            Item::Enum(en) => m.iter().any(|(k, e)| {
                en.variants.iter().any(|v| {
                    v.fields.iter().flatten().any(|f| !f.skip && field_key(f, v.rename_all) == *k && colliding(cat, &f.ty, e, depth + 1))
                })
            }),
            Item::Conv(c) => colliding(cat, &c.via, d, depth + 1),
        },
        _ => false,
    }
}

pub fn run_c15(e: &Engine) -> i32 {
    let rec = Recorder::new("C15", e.tier);
    // (the 70-field structs of group B6 are left to the other checks: the 24-field ones of B5
    // already exercise large-object orders)
    let roots: Vec<usize> = (0..e.cat.roots.len()).filter(|i| e.cat.roots[*i].group != "B6").collect();
    let (max_members, faults, cap) = if e.tier == Tier::Quick { (4usize, 1usize, 600usize) } else { (5, 2, 3000) };
    let rich = e.tier == Tier::Thorough;
    let big_family = AtomicUsize::new(0);
    let skipped_cap = AtomicUsize::new(0);
    e.par_roots(&roots, &|ri| {
        let root = &e.cat.roots[ri];
        let entry = &e.entries[ri];
        let g = Gen::new(e.cat);
        let tystr = ty_str(&root.ty, e.cat);
        let subject = format!("{tystr} [{}: {}]", root.group, root.note);
        let cl = g.closure(&root.ty, faults, rich, 4_000);
        let mut docs: Vec<Doc> = cl.states.into_iter().map(|x| x.0).collect();
        let (keys, leaves) = g.small_alphabet(&root.ty);
        let mut seen: HashSet<String> = docs.iter().map(|d| d.text()).collect();
        for d in small_docs(3, &keys, &leaves) {
            if seen.insert(d.text()) {
                docs.push(d);
            }
        }
        let mut states = 0u64;
        let mut trans = 0u64;
        let mut execs = 0u64;
        let mut sigs: HashSet<u64> = HashSet::new();
        let mut bad = 0;
        for doc in &docs {
            let mol = doc.max_object_len();
            if mol < 2 {
                continue; // nothing to permute
            }
            if colliding(e.cat, &root.ty, doc, 0) {
                continue;
            }
            let orders = if mol > max_members {
                // objects too large for all m! orders: the complete family of reversal, all
                // rotations and all adjacent transpositions of every large object (others fixed)
                big_family.fetch_add(1, Ordering::Relaxed);
                family_orders(doc, max_members)
            } else {
                match all_orders(doc, cap) {
                    Some(o) => o,
                    None => {
                        skipped_cap.fetch_add(1, Ordering::Relaxed);
                        continue;
                    }
                }
            };
            states += 1;
            let mut first: Option<(Signature, Option<String>, Doc)> = None;
            for o in &orders {
                trans += 1;
                let keep = execute(entry, Src::Ov, o, &Script::keep_going());
                let ff = execute(entry, Src::Ov, o, &Script::fail_fast());
                execs += 2;
                if keep.panicked.is_some() || ff.panicked.is_some() {
                    continue;
                }
                let s = signature(&keep);
                let ffv = ff.result.as_ref().ok().map(|v| v.text());
                match &first {
                    None => {
                        sigs.insert(hash64(&(ri, &s)));
                        first = Some((s, ffv, o.clone()));
                    }
                    Some((s0, ff0, o0)) => {
                        if *s0 != s || *ff0 != ffv {
                            rec.violation(Violation {
                                property: "C15".into(),
                                subject: subject.clone(),
                                message: format!(
                                    "the outcome depends on the member order\n  order 1: {}\n    {:?} fail-fast value {:?}\n  order 2: {}\n    {:?} fail-fast value {:?}",
                                    o0.text(), s0, ff0, o.text(), s, ffv
                                ),
                                replay: json!({"kind": "perm", "root": ri, "type": tystr, "order1": doc_to_tagged(o0), "order2": doc_to_tagged(o)}),
                            });
                            bad += 1;
                            break;
                        }
                    }
                }
            }
            if bad >= 3 {
                break;
            }
        }
        rec.add_counts(states, trans, execs);
        rec.add_signatures(&sigs, &sigs);
    });
    rec.set_extra("max_members_per_object", json!(max_members));
    rec.set_extra("payloads_with_a_larger_object_(explored_by_reversal_rotations_adjacent_transpositions)", json!(big_family.load(Ordering::Relaxed)));
    rec.set_extra("payloads_skipped_because_the_permutation_product_exceeds_the_cap", json!(skipped_cap.load(Ordering::Relaxed)));
    rec.set_extra("permutation_product_cap", json!(cap));
    rec.set_extra("faults_per_payload", json!(faults));
    if skipped_cap.load(Ordering::Relaxed) > 0 {
        rec.cap_hit(format!("{} payloads skipped: permutation product above {cap}", skipped_cap.load(Ordering::Relaxed)));
    }
    rec.sample(json!({"note": "every state is a payload; every transition one simultaneous permutation of the members of all its objects, presented through the order-preserving value source"}));
    rec.finish(
        "model_checking",
        "states = (catalogue type, payload) with payloads from the fault closure (≤F faults) and all small documents, restricted to payloads in which no two keys parse to the same map key; transitions = every simultaneous permutation of the members of every object of ≤ M members (full product, all m! orders per object); for payloads with a larger object (e.g. the 24-field structs) the complete family of reversal, every rotation and every adjacent transposition of each large object, presented through the order-preserving second value source. Oracle (self-relative): the keep-going outcome signature (value | multiset of (kind, location, detail) reports, multiset of user-function calls) and the fail-fast success value are identical for every order. Payloads whose permutation product exceeds the cap are skipped and counted, never sampled.",
        &[
            "exhaustive only within the stated alphabets and bounds",
            "every explored behaviour is an execution of /repo's real deserr::deserialize",
        ],
    )
}
