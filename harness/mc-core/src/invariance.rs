//! C09(b): invariance under extra keys (stub, filled in below).
use crate::engine::Engine;
use crate::evidence::Recorder;

pub fn run_extras(_e: &Engine, _rec: &Recorder) {}
