//! Probes (`P<T>`), the `Dump` trait, and the user-function library
//! (DESIGN.md §3.3, §3.6).  All of these are ordinary *user-level* extension
//! points of deserr: no instrumentation of the code under test is needed.

use crate::doc::*;
use crate::rec::*;
use deserr::{take_cf_content, DeserializeError, Deserr, ErrorKind, IntoValue, Value, ValuePointerRef};
use std::collections::{BTreeMap, BTreeSet, HashMap, HashSet};
use std::convert::Infallible;

/// A user-defined map key type, generic over a (path-qualified) type: parses and prints like `u8`.
#[derive(Debug, Clone, PartialEq, Eq, Hash, PartialOrd, Ord)]
pub struct Gk<T>(pub u8, pub std::marker::PhantomData<T>);
impl<T> std::str::FromStr for Gk<T> {
    type Err = std::num::ParseIntError;
    fn from_str(s: &str) -> Result<Self, Self::Err> {
        s.parse::<u8>().map(|x| Gk(x, std::marker::PhantomData))
    }
}
impl<T> std::fmt::Display for Gk<T> {
    fn fmt(&self, f: &mut std::fmt::Formatter<'_>) -> std::fmt::Result {
        write!(f, "{}", self.0)
    }
}

/// Transparent probe: logs Enter/Exit around the inner type's deserialization.
#[derive(Debug, Clone, Copy, PartialEq, Eq, Hash, PartialOrd, Ord, Default)]
pub struct P<T>(pub T);

impl<E: DeserializeError, T: Deserr<E>> Deserr<E> for P<T> {
    fn deserialize_from_value<V: IntoValue>(value: Value<V>, location: ValuePointerRef) -> Result<Self, E> {
        let loc = loc_from_ref(location);
        log(Event::Enter { loc: loc.clone(), kind: Kind::from_deserr(value.kind()) });
        let r = T::deserialize_from_value(value, location);
        log(Event::Exit { loc, ok: r.is_ok() });
        r.map(P)
    }
}

/// Serialises a deserialized value back to a document, keyed by *Rust
/// identifiers*, so that the key → field pairing is observable.
pub trait Dump {
    fn dump(&self) -> Doc;
}

impl<T: Dump> Dump for P<T> {
    fn dump(&self) -> Doc {
        self.0.dump()
    }
}
impl Dump for () {
    fn dump(&self) -> Doc {
        Doc::Null
    }
}
impl Dump for bool {
    fn dump(&self) -> Doc {
        Doc::Bool(*self)
    }
}
impl Dump for char {
    fn dump(&self) -> Doc {
        Doc::Str(self.to_string())
    }
}
impl Dump for String {
    fn dump(&self) -> Doc {
        Doc::Str(self.clone())
    }
}
macro_rules! dump_uint {
    ($($t:ty),*) => {$(
        impl Dump for $t {
            fn dump(&self) -> Doc {
                // u128 values above u64::MAX cannot come from a payload integer
                Doc::Int(u64::try_from(*self).expect("unsigned result fits u64"))
            }
        }
    )*};
}
dump_uint!(u8, u16, u32, u64, u128, usize);
macro_rules! dump_sint {
    ($($t:ty),*) => {$(
        impl Dump for $t {
            fn dump(&self) -> Doc {
                let v = *self as i128;
                if v < 0 { Doc::Neg(v as i64) } else { Doc::Int(v as u64) }
            }
        }
    )*};
}
dump_sint!(i8, i16, i32, i64, i128, isize);
macro_rules! dump_nz {
    ($($t:ty),*) => {$(
        impl Dump for $t {
            fn dump(&self) -> Doc {
                self.get().dump()
            }
        }
    )*};
}
dump_nz!(
    std::num::NonZeroU8,
    std::num::NonZeroU16,
    std::num::NonZeroU32,
    std::num::NonZeroU64,
    std::num::NonZeroU128,
    std::num::NonZeroUsize,
    std::num::NonZeroI8,
    std::num::NonZeroI16,
    std::num::NonZeroI32,
    std::num::NonZeroI64,
    std::num::NonZeroI128,
    std::num::NonZeroIsize
);
impl Dump for f32 {
    fn dump(&self) -> Doc {
        Doc::Float(*self as f64)
    }
}
impl Dump for f64 {
    fn dump(&self) -> Doc {
        Doc::Float(*self)
    }
}
impl Dump for serde_json::Value {
    fn dump(&self) -> Doc {
        Doc::from_json(self)
    }
}
impl Dump for Doc {
    fn dump(&self) -> Doc {
        self.clone()
    }
}
impl<T: Dump> Dump for Option<T> {
    fn dump(&self) -> Doc {
        match self {
            None => Doc::Null,
            // a present content that itself dumps as null (`Some(None)`, `Some(())`, ...) must not
            // look like an absent one
            Some(x) => match x.dump() {
                Doc::Null => some_null(),
                d => d,
            },
        }
    }
}
pub fn some_null() -> Doc {
    Doc::Obj(vec![("$some".to_string(), Doc::Null)])
}
impl<T> Dump for std::marker::PhantomData<T> {
    fn dump(&self) -> Doc {
        Doc::Null
    }
}
impl<T: Dump> Dump for Box<T> {
    fn dump(&self) -> Doc {
        (**self).dump()
    }
}
impl<T: Dump> Dump for Vec<T> {
    fn dump(&self) -> Doc {
        Doc::Seq(self.iter().map(|x| x.dump()).collect())
    }
}
impl<T: Dump, const N: usize> Dump for [T; N] {
    fn dump(&self) -> Doc {
        Doc::Seq(self.iter().map(|x| x.dump()).collect())
    }
}
impl<A: Dump, B: Dump> Dump for (A, B) {
    fn dump(&self) -> Doc {
        Doc::Seq(vec![self.0.dump(), self.1.dump()])
    }
}
impl<A: Dump, B: Dump, C: Dump> Dump for (A, B, C) {
    fn dump(&self) -> Doc {
        Doc::Seq(vec![self.0.dump(), self.1.dump(), self.2.dump()])
    }
}
/// Sets dump as the sorted sequence of their (distinct) elements.
pub fn dump_set<'a, T: Dump + 'a>(it: impl Iterator<Item = &'a T>) -> Doc {
    let mut v: Vec<(String, Doc)> = it.map(|x| x.dump()).map(|d| (d.text(), d)).collect();
    v.sort_by(|a, b| a.0.cmp(&b.0));
    Doc::Seq(v.into_iter().map(|x| x.1).collect())
}
impl<T: Dump> Dump for HashSet<T> {
    fn dump(&self) -> Doc {
        dump_set(self.iter())
    }
}
impl<T: Dump> Dump for BTreeSet<T> {
    fn dump(&self) -> Doc {
        dump_set(self.iter())
    }
}
/// Maps dump as an object keyed by the textual form of the *parsed* key, sorted.
pub fn dump_map<'a, K: ToString + 'a, T: Dump + 'a>(it: impl Iterator<Item = (&'a K, &'a T)>) -> Doc {
    let mut v: Vec<(String, Doc)> = it.map(|(k, x)| (k.to_string(), x.dump())).collect();
    v.sort_by(|a, b| a.0.cmp(&b.0));
    Doc::Obj(v)
}
impl<K: ToString, T: Dump> Dump for HashMap<K, T> {
    fn dump(&self) -> Doc {
        dump_map(self.iter())
    }
}
impl<K: ToString, T: Dump> Dump for BTreeMap<K, T> {
    fn dump(&self) -> Doc {
        dump_map(self.iter())
    }
}
impl<T: Dump> Dump for serde_cs::vec::CS<T> {
    fn dump(&self) -> Doc {
        Doc::Seq(self.0.iter().map(|x| x.dump()).collect())
    }
}

// ------------------------------------------------------------------------------------------
// user-function library: fixed functions with known pure semantics that log their calls
// ------------------------------------------------------------------------------------------

/// Result type of field conversions; does not implement `Deserr`, so it can
/// only be produced by a conversion function (or by `Default`).
#[derive(Debug, Clone, Copy, PartialEq, Eq, Default)]
pub struct Cv(pub u16);
impl Dump for Cv {
    fn dump(&self) -> Doc {
        Doc::Int(self.0 as u64)
    }
}

pub const FROM_INC: u16 = 1000;
pub const TRY_EVEN: u16 = 2000;
pub const FROM_REF: u16 = 3000;
pub const TRY_REF: u16 = 4000;
pub const BUMP_U8: u8 = 100;
pub const BUMP_CV: u16 = 10000;

/// Intermediate values the field conversions accept: `P<u8>` and `Option<P<u8>>` (an absent
/// content counts as `NONE_ARG`).
pub trait ConvIn {
    fn n(&self) -> u8;
}
pub const NONE_ARG: u8 = 201;
impl ConvIn for P<u8> {
    fn n(&self) -> u8 {
        self.0
    }
}
impl ConvIn for Option<P<u8>> {
    fn n(&self) -> u8 {
        self.map(|p| p.0).unwrap_or(NONE_ARG)
    }
}

pub fn from_inc<T: ConvIn>(x: T) -> Cv {
    log(Event::UserFn(UserCall::Conv { fn_name: "from_inc", arg: x.n(), ok: true }));
    Cv(x.n() as u16 + FROM_INC)
}
pub fn from_ref<T: ConvIn>(x: &T) -> Cv {
    log(Event::UserFn(UserCall::Conv { fn_name: "from_ref", arg: x.n(), ok: true }));
    Cv(x.n() as u16 + FROM_REF)
}
pub fn try_even<T: ConvIn>(x: T) -> Result<Cv, ConvErr> {
    let ok = x.n() % 2 == 0;
    log(Event::UserFn(UserCall::Conv { fn_name: "try_even", arg: x.n(), ok }));
    if ok {
        Ok(Cv(x.n() as u16 + TRY_EVEN))
    } else {
        Err(ConvErr { fn_name: "try_even".into(), arg: Doc::Int(x.n() as u64) })
    }
}
pub fn try_ref<T: ConvIn>(x: &T) -> Result<Cv, ConvErr> {
    let ok = x.n() % 2 == 0;
    log(Event::UserFn(UserCall::Conv { fn_name: "try_ref", arg: x.n(), ok }));
    if ok {
        Ok(Cv(x.n() as u16 + TRY_REF))
    } else {
        Err(ConvErr { fn_name: "try_ref".into(), arg: Doc::Int(x.n() as u64) })
    }
}

pub fn from_inc_o<T: ConvIn>(x: T) -> Option<Cv> {
    Some(from_inc(x))
}
pub fn from_ref_o<T: ConvIn>(x: &T) -> Option<Cv> {
    Some(from_ref(x))
}
pub fn try_even_o<T: ConvIn>(x: T) -> Result<Option<Cv>, ConvErr> {
    try_even(x).map(Some)
}
pub fn try_ref_o<T: ConvIn>(x: &T) -> Result<Option<Cv>, ConvErr> {
    try_ref(x).map(Some)
}

/// The field conversions with the intermediate type as result type: the value is taken modulo 256.
pub fn from_inc_s(x: P<u8>) -> P<u8> {
    P(from_inc(x).0 as u8)
}
pub fn from_ref_s(x: &P<u8>) -> P<u8> {
    P(from_ref(x).0 as u8)
}
pub fn try_even_s(x: P<u8>) -> Result<P<u8>, ConvErr> {
    try_even(x).map(|c| P(c.0 as u8))
}
pub fn try_ref_s(x: &P<u8>) -> Result<P<u8>, ConvErr> {
    try_ref(x).map(|c| P(c.0 as u8))
}

/// Container-level `from`: wraps the dump of the intermediate value.
pub fn conv_container(item: usize, by_ref: bool, d: &Doc) -> Doc {
    log(Event::UserFn(UserCall::ContainerConv { item, by_ref, arg: d.clone(), ok: true }));
    Doc::Obj(vec![("from".to_string(), d.clone())])
}
/// Container-level `try_from`: fails iff the integers of the dump sum to an odd number.
pub fn conv_container_try(item: usize, by_ref: bool, d: &Doc) -> Result<Doc, ConvErr> {
    let ok = d.int_sum() % 2 == 0;
    log(Event::UserFn(UserCall::ContainerConv { item, by_ref, arg: d.clone(), ok }));
    if ok {
        Ok(Doc::Obj(vec![("try_from".to_string(), d.clone())]))
    } else {
        Err(ConvErr { fn_name: format!("c{item}_fn"), arg: d.clone() })
    }
}

/// `map` function: visibly changes the value.
pub trait Bump {
    const DECL: &'static str;
    fn bump(self) -> Self;
}
impl Bump for P<u8> {
    const DECL: &'static str = "P<u8>";
    fn bump(self) -> Self {
        P(self.0.wrapping_add(BUMP_U8))
    }
}
impl Bump for Cv {
    const DECL: &'static str = "Cv";
    fn bump(self) -> Self {
        Cv(self.0.wrapping_add(BUMP_CV))
    }
}
impl Bump for Option<P<u8>> {
    const DECL: &'static str = "Option<P<u8>>";
    fn bump(self) -> Self {
        Some(self.unwrap_or_default().bump())
    }
}
impl Bump for P<Vec<P<u8>>> {
    const DECL: &'static str = "P<Vec<P<u8>>>";
    fn bump(mut self) -> Self {
        self.0.push(P(BUMP_U8));
        self
    }
}
pub fn map_bump<T: Bump + Dump>(t: T) -> T {
    log(Event::UserFn(UserCall::Map { decl: T::DECL, arg: t.dump() }));
    t.bump()
}

/// `validate` function: fails iff the integers of the finished value sum to a
/// multiple of three.
pub fn validate_sum<T: Dump>(t: T, loc: ValuePointerRef) -> Result<T, ValErr> {
    let d = t.dump();
    let sum = d.int_sum();
    let ok = sum % 3 != 0;
    log(Event::UserFn(UserCall::Validate { value: d, loc: loc_from_ref(loc), ok }));
    if ok {
        Ok(t)
    } else {
        Err(ValErr { sum })
    }
}

/// `validate` function whose error type is the container's own: same rule as `validate_sum`;
/// the error is built with `E::error` as user code must (flagged, see `custom_missing`).
pub fn validate_sum_same<T: Dump, E: DeserializeError>(t: T, loc: ValuePointerRef) -> Result<T, E> {
    let d = t.dump();
    let sum = d.int_sum();
    let ok = sum % 3 != 0;
    log(Event::UserFn(UserCall::Validate { value: d, loc: loc_from_ref(loc), ok }));
    if ok {
        Ok(t)
    } else {
        enter_user_fn();
        let e = take_cf_content(E::error::<Infallible>(None, ErrorKind::Unexpected { msg: format!("validate-same:{sum}") }, loc));
        leave_user_fn();
        Err(e)
    }
}

/// Container-level `try_from` whose error type is the container's own (the function is not given
/// a location: it reports at the origin).
pub fn conv_container_try_same<E: DeserializeError>(item: usize, by_ref: bool, d: &Doc) -> Result<Doc, E> {
    let ok = d.int_sum() % 2 == 0;
    log(Event::UserFn(UserCall::ContainerConv { item, by_ref, arg: d.clone(), ok }));
    if ok {
        Ok(Doc::Obj(vec![("try_from".to_string(), d.clone())]))
    } else {
        enter_user_fn();
        let e = take_cf_content(E::error::<Infallible>(
            None,
            ErrorKind::Unexpected { msg: format!("conv-same:c{item}_fn") },
            ValuePointerRef::Origin,
        ));
        leave_user_fn();
        Err(e)
    }
}

/// `missing_field_error` function. Builds its error with `E::error` as user
/// code must; the answer of that call is discarded here (by user code, not by
/// deserr), so it is flagged and does not consume a script position.
pub fn custom_missing<E: DeserializeError>(key: &str, loc: ValuePointerRef) -> E {
    log(Event::UserFn(UserCall::CustomMissing { key: key.to_string(), loc: loc_from_ref(loc) }));
    enter_user_fn();
    let e = take_cf_content(E::error::<Infallible>(
        None,
        ErrorKind::Unexpected { msg: format!("custom-missing:{key}") },
        loc,
    ));
    leave_user_fn();
    e
}
pub fn custom_missing_a(key: &str, loc: ValuePointerRef) -> RecA {
    custom_missing::<RecA>(key, loc)
}

/// `deny_unknown_fields = fn` function.
pub fn custom_unknown<E: DeserializeError>(key: &str, accepted: &[&str], loc: ValuePointerRef) -> E {
    log(Event::UserFn(UserCall::CustomUnknown {
        key: key.to_string(),
        accepted: accepted.iter().map(|s| s.to_string()).collect(),
        loc: loc_from_ref(loc),
    }));
    enter_user_fn();
    let e = take_cf_content(E::error::<Infallible>(
        None,
        ErrorKind::Unexpected { msg: format!("custom-unknown:{key}") },
        loc,
    ));
    leave_user_fn();
    e
}
pub fn custom_unknown_a(key: &str, accepted: &[&str], loc: ValuePointerRef) -> RecA {
    custom_unknown::<RecA>(key, accepted, loc)
}

/// `missing_field_error` function returning a *foreign* error: the derive hands it to the
/// container's error type through `MergeWithError<ConvErr>` and obeys that answer.
pub fn custom_missing_f(key: &str, loc: ValuePointerRef) -> ConvErr {
    log(Event::UserFn(UserCall::CustomMissing { key: key.to_string(), loc: loc_from_ref(loc) }));
    ConvErr { fn_name: "custom_missing_f".to_string(), arg: Doc::Str(key.to_string()) }
}

/// `deny_unknown_fields = fn` function returning a foreign error.
pub fn custom_unknown_f(key: &str, accepted: &[&str], loc: ValuePointerRef) -> ConvErr {
    log(Event::UserFn(UserCall::CustomUnknown {
        key: key.to_string(),
        accepted: accepted.iter().map(|s| s.to_string()).collect(),
        loc: loc_from_ref(loc),
    }));
    ConvErr { fn_name: "custom_unknown_f".to_string(), arg: Doc::Str(key.to_string()) }
}
