//! Ordered JSON-like documents: the payload representation of the explorer.
//! Objects keep insertion order and may hold duplicate keys (only the second
//! value source can present those); the canonical form has sorted unique keys.

use std::fmt::Write;

#[derive(Clone, Debug)]
pub enum Doc {
    Null,
    Bool(bool),
    /// non-negative integer
    Int(u64),
    /// negative integer (canonical: < 0)
    Neg(i64),
    Float(f64),
    Str(String),
    Seq(Vec<Doc>),
    Obj(Vec<(String, Doc)>),
}

/// Structural equality; floats are equal when numerically equal *or* bit-identical, so that a
/// log that quotes a NaN payload still equals its own replay.
impl PartialEq for Doc {
    fn eq(&self, other: &Doc) -> bool {
        match (self, other) {
            (Doc::Null, Doc::Null) => true,
            (Doc::Bool(a), Doc::Bool(b)) => a == b,
            (Doc::Int(a), Doc::Int(b)) => a == b,
            (Doc::Neg(a), Doc::Neg(b)) => a == b,
            (Doc::Float(a), Doc::Float(b)) => a == b || a.to_bits() == b.to_bits(),
            (Doc::Str(a), Doc::Str(b)) => a == b,
            (Doc::Seq(a), Doc::Seq(b)) => a == b,
            (Doc::Obj(a), Doc::Obj(b)) => a == b,
            _ => false,
        }
    }
}

#[derive(Clone, Copy, Debug, PartialEq, Eq, Hash, PartialOrd, Ord)]
pub enum Kind {
    Null,
    Boolean,
    Integer,
    NegativeInteger,
    Float,
    String,
    Sequence,
    Map,
}

impl Kind {
    pub const ALL: [Kind; 8] = [
        Kind::Null,
        Kind::Boolean,
        Kind::Integer,
        Kind::NegativeInteger,
        Kind::Float,
        Kind::String,
        Kind::Sequence,
        Kind::Map,
    ];
    pub fn from_deserr(k: deserr::ValueKind) -> Kind {
        match k {
            deserr::ValueKind::Null => Kind::Null,
            deserr::ValueKind::Boolean => Kind::Boolean,
            deserr::ValueKind::Integer => Kind::Integer,
            deserr::ValueKind::NegativeInteger => Kind::NegativeInteger,
            deserr::ValueKind::Float => Kind::Float,
            deserr::ValueKind::String => Kind::String,
            deserr::ValueKind::Sequence => Kind::Sequence,
            deserr::ValueKind::Map => Kind::Map,
        }
    }
    pub fn to_deserr(self) -> deserr::ValueKind {
        match self {
            Kind::Null => deserr::ValueKind::Null,
            Kind::Boolean => deserr::ValueKind::Boolean,
            Kind::Integer => deserr::ValueKind::Integer,
            Kind::NegativeInteger => deserr::ValueKind::NegativeInteger,
            Kind::Float => deserr::ValueKind::Float,
            Kind::String => deserr::ValueKind::String,
            Kind::Sequence => deserr::ValueKind::Sequence,
            Kind::Map => deserr::ValueKind::Map,
        }
    }
}

#[derive(Clone, Debug, PartialEq, Eq, Hash, PartialOrd, Ord)]
pub enum Step {
    Key(String),
    Index(usize),
}

pub type Loc = Vec<Step>;

pub fn loc_str(l: &[Step]) -> String {
    let mut s = String::new();
    for st in l {
        match st {
            Step::Key(k) => {
                s.push('.');
                s.push_str(k)
            }
            Step::Index(i) => {
                let _ = write!(s, "[{i}]");
            }
        }
    }
    if s.is_empty() {
        s.push_str("<root>");
    }
    s
}

pub fn loc_from_ref(l: deserr::ValuePointerRef) -> Loc {
    // Read the chain directly (not through `to_owned`, which C19 checks).
    let mut out = vec![];
    let mut cur = l;
    loop {
        match cur {
            deserr::ValuePointerRef::Origin => break,
            deserr::ValuePointerRef::Key { key, prev } => {
                out.push(Step::Key(key.to_string()));
                cur = *prev;
            }
            deserr::ValuePointerRef::Index { index, prev } => {
                out.push(Step::Index(index));
                cur = *prev;
            }
        }
    }
    out.reverse();
    out
}

impl Doc {
    pub fn kind(&self) -> Kind {
        match self {
            Doc::Null => Kind::Null,
            Doc::Bool(_) => Kind::Boolean,
            Doc::Int(_) => Kind::Integer,
            Doc::Neg(_) => Kind::NegativeInteger,
            Doc::Float(_) => Kind::Float,
            Doc::Str(_) => Kind::String,
            Doc::Seq(_) => Kind::Sequence,
            Doc::Obj(_) => Kind::Map,
        }
    }

    pub fn s(x: &str) -> Doc {
        Doc::Str(x.to_string())
    }

    pub fn obj(members: Vec<(&str, Doc)>) -> Doc {
        Doc::Obj(members.into_iter().map(|(k, v)| (k.to_string(), v)).collect())
    }

    /// Canonical form: keys sorted, last duplicate wins (what serde_json's map does).
    pub fn canonical(&self) -> Doc {
        match self {
            Doc::Seq(v) => Doc::Seq(v.iter().map(|d| d.canonical()).collect()),
            Doc::Obj(m) => {
                let mut out: Vec<(String, Doc)> = m.iter().map(|(k, v)| (k.clone(), v.canonical())).collect();
                // stable sort, then the last entry of every run of equal keys wins
                out.sort_by(|a, b| a.0.cmp(&b.0));
                let mut dedup: Vec<(String, Doc)> = Vec::with_capacity(out.len());
                for e in out {
                    match dedup.last_mut() {
                        Some(l) if l.0 == e.0 => *l = e,
                        _ => dedup.push(e),
                    }
                }
                Doc::Obj(dedup)
            }
            d => d.clone(),
        }
    }

    /// The same document with the members of every object in reverse order.
    pub fn reversed(&self) -> Doc {
        match self {
            Doc::Seq(v) => Doc::Seq(v.iter().map(|d| d.reversed()).collect()),
            Doc::Obj(m) => Doc::Obj(m.iter().rev().map(|(k, v)| (k.clone(), v.reversed())).collect()),
            d => d.clone(),
        }
    }

    /// True if no object has a duplicate key, numbers are classified canonically
    /// and floats are finite.
    pub fn is_plain(&self) -> bool {
        match self {
            Doc::Neg(x) => *x < 0,
            Doc::Float(f) => f.is_finite(),
            Doc::Seq(v) => v.iter().all(|d| d.is_plain()),
            Doc::Obj(m) => {
                let mut keys: Vec<&String> = m.iter().map(|(k, _)| k).collect();
                keys.sort();
                keys.windows(2).all(|w| w[0] != w[1]) && m.iter().all(|(_, v)| v.is_plain())
            }
            _ => true,
        }
    }

    pub fn to_json(&self) -> serde_json::Value {
        use serde_json::Value as J;
        match self {
            Doc::Null => J::Null,
            Doc::Bool(b) => J::Bool(*b),
            Doc::Int(u) => J::Number((*u).into()),
            Doc::Neg(i) => J::Number((*i).into()),
            Doc::Float(f) => serde_json::Number::from_f64(*f).map(J::Number).unwrap_or(J::Null),
            Doc::Str(s) => J::String(s.clone()),
            Doc::Seq(v) => J::Array(v.iter().map(|d| d.to_json()).collect()),
            Doc::Obj(m) => {
                let mut o = serde_json::Map::new();
                for (k, v) in m {
                    o.insert(k.clone(), v.to_json());
                }
                J::Object(o)
            }
        }
    }

    pub fn from_json(j: &serde_json::Value) -> Doc {
        use serde_json::Value as J;
        match j {
            J::Null => Doc::Null,
            J::Bool(b) => Doc::Bool(*b),
            J::Number(n) => {
                // classification by how serde_json holds it (C13 checks deserr's view against text)
                if let Some(u) = n.as_u64() {
                    Doc::Int(u)
                } else if let Some(i) = n.as_i64() {
                    Doc::Neg(i)
                } else {
                    Doc::Float(n.as_f64().unwrap())
                }
            }
            J::String(s) => Doc::Str(s.clone()),
            J::Array(v) => Doc::Seq(v.iter().map(Doc::from_json).collect()),
            J::Object(m) => Doc::Obj(m.iter().map(|(k, v)| (k.clone(), Doc::from_json(v))).collect()),
        }
    }

    pub fn parse(text: &str) -> Doc {
        Doc::from_json(&serde_json::from_str::<serde_json::Value>(text).expect("valid JSON"))
    }

    /// Text form (order-preserving; JSON syntax, duplicate keys written out).
    pub fn text(&self) -> String {
        let mut s = String::new();
        self.write(&mut s);
        s
    }

    fn write(&self, s: &mut String) {
        match self {
            Doc::Null => s.push_str("null"),
            Doc::Bool(b) => {
                let _ = write!(s, "{b}");
            }
            Doc::Int(u) => {
                let _ = write!(s, "{u}");
            }
            Doc::Neg(i) => {
                let _ = write!(s, "{i}");
            }
            Doc::Float(f) => {
                if f.is_finite() {
                    s.push_str(&serde_json::to_string(&serde_json::Number::from_f64(*f).unwrap()).unwrap());
                } else {
                    let _ = write!(s, "<{f}>");
                }
            }
            Doc::Str(x) => s.push_str(&serde_json::to_string(x).unwrap()),
            Doc::Seq(v) => {
                s.push('[');
                for (i, d) in v.iter().enumerate() {
                    if i > 0 {
                        s.push(',');
                    }
                    d.write(s);
                }
                s.push(']');
            }
            Doc::Obj(m) => {
                s.push('{');
                for (i, (k, d)) in m.iter().enumerate() {
                    if i > 0 {
                        s.push(',');
                    }
                    s.push_str(&serde_json::to_string(k).unwrap());
                    s.push(':');
                    d.write(s);
                }
                s.push('}');
            }
        }
    }

    /// The value at `loc`, if that position exists (first entry with the key).
    pub fn resolve(&self, loc: &[Step]) -> Option<&Doc> {
        let mut cur = self;
        for st in loc {
            cur = match (st, cur) {
                (Step::Key(k), Doc::Obj(m)) => &m.iter().find(|(k2, _)| k2 == k)?.1,
                (Step::Index(i), Doc::Seq(v)) => v.get(*i)?,
                _ => return None,
            };
        }
        Some(cur)
    }

    pub fn resolve_mut(&mut self, loc: &[Step]) -> Option<&mut Doc> {
        let mut cur = self;
        for st in loc {
            cur = match (st, cur) {
                (Step::Key(k), Doc::Obj(m)) => &mut m.iter_mut().find(|(k2, _)| k2 == k)?.1,
                (Step::Index(i), Doc::Seq(v)) => v.get_mut(*i)?,
                _ => return None,
            };
        }
        Some(cur)
    }

    pub fn get(&self, key: &str) -> Option<&Doc> {
        match self {
            Doc::Obj(m) => m.iter().find(|(k, _)| k == key).map(|(_, v)| v),
            _ => None,
        }
    }

    pub fn nodes(&self) -> usize {
        match self {
            Doc::Seq(v) => 1 + v.iter().map(|d| d.nodes()).sum::<usize>(),
            Doc::Obj(m) => 1 + m.iter().map(|(_, d)| d.nodes()).sum::<usize>(),
            _ => 1,
        }
    }

    pub fn depth(&self) -> usize {
        match self {
            Doc::Seq(v) => 1 + v.iter().map(|d| d.depth()).max().unwrap_or(0),
            Doc::Obj(m) => 1 + m.iter().map(|(_, d)| d.depth()).max().unwrap_or(0),
            _ => 1,
        }
    }

    /// Sum of all integers in the document (used by the user-function library).
    pub fn int_sum(&self) -> i128 {
        match self {
            Doc::Int(u) => *u as i128,
            Doc::Neg(i) => *i as i128,
            Doc::Seq(v) => v.iter().map(|d| d.int_sum()).sum(),
            Doc::Obj(m) => m.iter().map(|(_, d)| d.int_sum()).sum(),
            _ => 0,
        }
    }

    /// Largest number of members of any object in the document.
    pub fn max_object_len(&self) -> usize {
        match self {
            Doc::Seq(v) => v.iter().map(|d| d.max_object_len()).max().unwrap_or(0),
            Doc::Obj(m) => m.len().max(m.iter().map(|(_, d)| d.max_object_len()).max().unwrap_or(0)),
            _ => 0,
        }
    }
}

/// Converts a deserr value view (of any source) into a document, consuming it.
pub fn doc_of_value<V: deserr::IntoValue>(v: deserr::Value<V>) -> Doc {
    use deserr::{Map, Sequence, Value};
    match v {
        Value::Null => Doc::Null,
        Value::Boolean(b) => Doc::Bool(b),
        Value::Integer(u) => Doc::Int(u),
        Value::NegativeInteger(i) => Doc::Neg(i),
        Value::Float(f) => Doc::Float(f),
        Value::String(s) => Doc::Str(s),
        Value::Sequence(s) => Doc::Seq(s.into_iter().map(|x| doc_of_value(x.into_value())).collect()),
        Value::Map(m) => Doc::Obj(m.into_iter().map(|(k, x)| (k, doc_of_value(x.into_value()))).collect()),
    }
}

pub fn doc_of_seq<V: deserr::IntoValue>(s: V::Sequence) -> Doc {
    use deserr::Sequence;
    Doc::Seq(s.into_iter().map(|x| doc_of_value(x.into_value())).collect())
}

// ----- the second value source: `Doc` itself, order-preserving, duplicates allowed -----

pub struct OvMap(pub Vec<(String, Doc)>);

impl deserr::Map for OvMap {
    type Value = Doc;
    type Iter = std::vec::IntoIter<(String, Doc)>;
    fn len(&self) -> usize {
        self.0.len()
    }
    fn remove(&mut self, key: &str) -> Option<Doc> {
        let i = self.0.iter().position(|(k, _)| k == key)?;
        Some(self.0.remove(i).1)
    }
    fn into_iter(self) -> Self::Iter {
        self.0.into_iter()
    }
}

impl deserr::IntoValue for Doc {
    type Sequence = Vec<Doc>;
    type Map = OvMap;

    fn kind(&self) -> deserr::ValueKind {
        Doc::kind(self).to_deserr()
    }

    fn into_value(self) -> deserr::Value<Self> {
        use deserr::Value;
        match self {
            Doc::Null => Value::Null,
            Doc::Bool(b) => Value::Boolean(b),
            Doc::Int(u) => Value::Integer(u),
            Doc::Neg(i) => Value::NegativeInteger(i),
            Doc::Float(f) => Value::Float(f),
            Doc::Str(s) => Value::String(s),
            Doc::Seq(v) => Value::Sequence(v),
            Doc::Obj(m) => Value::Map(OvMap(m)),
        }
    }
}
