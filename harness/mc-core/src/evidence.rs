//! Evidence files, replay artefacts, known findings, exit codes (DESIGN.md §7).

use crate::doc::*;
use serde_json::{json, Value as J};
use std::collections::HashSet;
use std::path::{Path, PathBuf};
use std::sync::Mutex;
use std::time::Instant;

pub fn verif_root() -> PathBuf {
    std::env::var("VERIF_ROOT").map(PathBuf::from).unwrap_or_else(|_| PathBuf::from("/verif"))
}

#[derive(Clone, Copy, Debug, PartialEq, Eq)]
pub enum Tier {
    Quick,
    Thorough,
}

impl Tier {
    pub fn name(self) -> &'static str {
        match self {
            Tier::Quick => "quick",
            Tier::Thorough => "thorough",
        }
    }
}

/// Order- and duplicate-preserving JSON encoding of a document for replay files.
pub fn doc_to_tagged(d: &Doc) -> J {
    match d {
        Doc::Null => J::Null,
        Doc::Bool(b) => json!(b),
        Doc::Int(u) => json!({ "int": u.to_string() }),
        Doc::Neg(i) => json!({ "neg": i.to_string() }),
        Doc::Float(f) => json!({ "float": format!("{:?}", f), "bits": f.to_bits().to_string() }),
        Doc::Str(s) => json!(s),
        Doc::Seq(v) => json!({ "seq": v.iter().map(doc_to_tagged).collect::<Vec<_>>() }),
        Doc::Obj(m) => json!({ "obj": m.iter().map(|(k, v)| json!([k, doc_to_tagged(v)])).collect::<Vec<_>>() }),
    }
}

pub fn doc_from_tagged(j: &J) -> Doc {
    match j {
        J::Null => Doc::Null,
        J::Bool(b) => Doc::Bool(*b),
        J::String(s) => Doc::Str(s.clone()),
        J::Object(o) => {
            if let Some(u) = o.get("int") {
                Doc::Int(u.as_str().unwrap().parse().unwrap())
            } else if let Some(i) = o.get("neg") {
                Doc::Neg(i.as_str().unwrap().parse().unwrap())
            } else if let Some(b) = o.get("bits") {
                Doc::Float(f64::from_bits(b.as_str().unwrap().parse().unwrap()))
            } else if let Some(s) = o.get("seq") {
                Doc::Seq(s.as_array().unwrap().iter().map(doc_from_tagged).collect())
            } else if let Some(m) = o.get("obj") {
                Doc::Obj(
                    m.as_array()
                        .unwrap()
                        .iter()
                        .map(|kv| (kv[0].as_str().unwrap().to_string(), doc_from_tagged(&kv[1])))
                        .collect(),
                )
            } else {
                panic!("bad tagged document")
            }
        }
        _ => panic!("bad tagged document"),
    }
}

#[derive(Clone, Debug)]
pub struct Violation {
    pub property: String,
    /// what distinguishes this violation for known-findings matching (e.g. the root type)
    pub subject: String,
    pub message: String,
    /// everything needed to re-execute the single case
    pub replay: J,
}

#[derive(Clone, Debug)]
pub struct KnownFinding {
    pub property: String,
    pub status: String,
    pub subject_contains: String,
    pub message_contains: String,
    pub what: String,
}

pub fn load_known_findings() -> Vec<KnownFinding> {
    let p = verif_root().join("known-findings.json");
    let Ok(text) = std::fs::read_to_string(&p) else { return vec![] };
    let j: J = serde_json::from_str(&text).expect("known-findings.json is valid JSON");
    j["findings"]
        .as_array()
        .map(|a| {
            a.iter()
                .map(|f| KnownFinding {
                    property: f["property"].as_str().unwrap_or("").to_string(),
                    status: f["status"].as_str().unwrap_or("known").to_string(),
                    subject_contains: f["subject_contains"].as_str().unwrap_or("").to_string(),
                    message_contains: f["message_contains"].as_str().unwrap_or("").to_string(),
                    what: f["what"].as_str().unwrap_or("").to_string(),
                })
                .collect()
        })
        .unwrap_or_default()
}

/// Collects coverage counters and violations from worker threads.
pub struct Recorder {
    pub property: String,
    pub tier: Tier,
    pub start: Instant,
    inner: Mutex<Inner>,
}

#[derive(Default)]
struct Inner {
    states: u64,
    transitions: u64,
    executions: u64,
    signatures: HashSet<u64>,
    nontrivial: HashSet<u64>,
    samples: Vec<J>,
    violations: Vec<Violation>,
    violation_count: u64,
    extra: serde_json::Map<String, J>,
    caps: Vec<String>,
    exhaustive: bool,
    machinery: Vec<String>,
}

impl Recorder {
    pub fn new(property: &str, tier: Tier) -> Self {
        Recorder {
            property: property.to_string(),
            tier,
            start: Instant::now(),
            inner: Mutex::new(Inner { exhaustive: true, ..Default::default() }),
        }
    }
    pub fn add_counts(&self, states: u64, transitions: u64, executions: u64) {
        let mut i = self.inner.lock().unwrap();
        i.states += states;
        i.transitions += transitions;
        i.executions += executions;
    }
    pub fn add_signatures(&self, all: &HashSet<u64>, nontrivial: &HashSet<u64>) {
        let mut i = self.inner.lock().unwrap();
        i.signatures.extend(all.iter().copied());
        i.nontrivial.extend(nontrivial.iter().copied());
    }
    pub fn sample(&self, s: J) {
        let mut i = self.inner.lock().unwrap();
        if i.samples.len() < 12 {
            i.samples.push(s);
        }
    }
    pub fn want_sample(&self) -> bool {
        self.inner.lock().unwrap().samples.len() < 12
    }
    pub fn cap_hit(&self, what: String) {
        let mut i = self.inner.lock().unwrap();
        i.exhaustive = false;
        if i.caps.len() < 50 {
            i.caps.push(what);
        }
    }
    /// A failure of the machinery itself (e.g. a replay that does not reproduce its log):
    /// the run ends with exit code 2 and no verdict.
    pub fn machinery_error(&self, what: String) {
        let mut i = self.inner.lock().unwrap();
        if i.machinery.len() < 20 {
            i.machinery.push(what);
        }
    }
    pub fn not_exhaustive(&self) {
        self.inner.lock().unwrap().exhaustive = false;
    }
    pub fn set_extra(&self, k: &str, v: J) {
        self.inner.lock().unwrap().extra.insert(k.to_string(), v);
    }
    pub fn add_extra_count(&self, k: &str, n: u64) {
        let mut i = self.inner.lock().unwrap();
        let cur = i.extra.get(k).and_then(|v| v.as_u64()).unwrap_or(0);
        i.extra.insert(k.to_string(), json!(cur + n));
    }
    pub fn violation(&self, v: Violation) {
        let mut i = self.inner.lock().unwrap();
        i.violation_count += 1;
        // keep a bounded number, but always one per distinct subject
        if i.violations.len() < 40 || !i.violations.iter().any(|x| x.subject == v.subject) {
            if i.violations.len() < 400 {
                i.violations.push(v);
            }
        }
    }
    pub fn violation_count(&self) -> u64 {
        self.inner.lock().unwrap().violation_count
    }

    /// Writes the evidence file and the replay artefacts; prints the verdict lines;
    /// returns the process exit code.
    pub fn finish(&self, level: &str, rule: &str, assumptions: &[&str]) -> i32 {
        let i = self.inner.lock().unwrap();
        let root = verif_root();
        // experiments on a deliberately broken tree (mutants/try.sh) write their evidence elsewhere,
        // so that /verif/evidence only ever holds runs on the tree as it is
        let ev_dir = std::env::var("VERIF_EVIDENCE").map(PathBuf::from).unwrap_or_else(|_| root.join("evidence"));
        let rp_dir = ev_dir.join("replays");
        let _ = std::fs::create_dir_all(&rp_dir);
        // old replays of this property
        if let Ok(rd) = std::fs::read_dir(&rp_dir) {
            for e in rd.flatten() {
                if e.file_name().to_string_lossy().starts_with(&format!("{}-", self.property)) {
                    let _ = std::fs::remove_file(e.path());
                }
            }
        }
        let known = load_known_findings();
        let mut new_violations = 0u64;
        let mut known_lines: Vec<String> = vec![];
        let mut printed = 0;
        for (n, v) in i.violations.iter().enumerate() {
            let k = known.iter().find(|k| {
                k.status == "known"
                    && k.property == v.property
                    && v.subject.contains(&k.subject_contains)
                    && v.message.contains(&k.message_contains)
            });
            match k {
                Some(k) => {
                    let line = format!("KNOWN-FINDING: property={} {}", v.property, k.what);
                    if !known_lines.contains(&line) {
                        known_lines.push(line);
                    }
                }
                None => {
                    new_violations += 1;
                    let path = rp_dir.join(format!("{}-{}.json", self.property, n));
                    let body = json!({
                        "property": v.property,
                        "subject": v.subject,
                        "message": v.message,
                        "replay": v.replay,
                    });
                    let _ = std::fs::write(&path, serde_json::to_string_pretty(&body).unwrap());
                    if printed < 25 {
                        println!("VIOLATION property={} replay={}", v.property, path.display());
                        println!("  subject: {}", v.subject);
                        println!("  {}", v.message);
                        printed += 1;
                    }
                }
            }
        }
        for l in &known_lines {
            println!("{l}");
        }
        let wall = self.start.elapsed().as_secs_f64();
        let mut coverage = serde_json::Map::new();
        coverage.insert("states".into(), json!(i.states.max(1)));
        coverage.insert("transitions".into(), json!(i.transitions.max(1)));
        coverage.insert("traces_validated_against_impl".into(), json!(i.executions));
        coverage.insert("evaluations".into(), json!(i.executions.max(1)));
        coverage.insert("distinct_outcomes".into(), json!(i.signatures.len()));
        coverage.insert("distinct_nontrivial".into(), json!(i.nontrivial.len()));
        coverage.insert("rule".into(), json!(rule));
        coverage.insert("samples".into(), json!(i.samples));
        coverage.insert("exhaustive".into(), json!(i.exhaustive && i.caps.is_empty()));
        coverage.insert("caps_hit".into(), json!(i.caps));
        for (k, v) in &i.extra {
            coverage.insert(k.clone(), v.clone());
        }
        if let Ok(c) = std::env::var("VERIF_COMMIT") {
            coverage.insert("verif_commit".into(), json!(c));
        }
        if let Ok(c) = std::env::var("VERIF_REPO_COMMIT") {
            coverage.insert("repo_commit".into(), json!(c));
        }
        let seed: i64 = std::env::var("VERIF_SEED").ok().and_then(|s| s.parse().ok()).unwrap_or(0);
        let ev = json!({
            "property_id": self.property,
            "tier": self.tier.name(),
            "seed": seed,
            "level": level,
            "coverage": coverage,
            "assumptions": assumptions,
            "wall_s": wall,
            "violations": i.violation_count,
            "violations_not_known": new_violations,
            "known_findings_seen": known_lines,
        });
        let _ = std::fs::create_dir_all(&ev_dir);
        write_atomic(&ev_dir.join(format!("{}.json", self.property)), &serde_json::to_string_pretty(&ev).unwrap());
        println!(
            "{} {}: states={} transitions={} executions={} distinct_outcomes={} nontrivial={} violations={} wall={:.1}s exhaustive={}",
            self.property,
            self.tier.name(),
            i.states,
            i.transitions,
            i.executions,
            i.signatures.len(),
            i.nontrivial.len(),
            i.violation_count,
            wall,
            i.exhaustive && i.caps.is_empty()
        );
        if !i.machinery.is_empty() {
            for m in &i.machinery {
                println!("MACHINERY ERROR: {m}");
            }
            return 2;
        }
        if new_violations > 0 {
            1
        } else {
            0
        }
    }
}

pub fn write_atomic(path: &Path, text: &str) {
    let tmp = path.with_extension("json.tmp");
    std::fs::write(&tmp, text).expect("write evidence");
    std::fs::rename(&tmp, path).expect("rename evidence");
}

pub fn hash64<T: std::hash::Hash>(t: &T) -> u64 {
    use std::hash::Hasher;
    let mut h = std::collections::hash_map::DefaultHasher::new();
    t.hash(&mut h);
    h.finish()
}
