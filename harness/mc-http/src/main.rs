//! C20 — the HTTP extractors add nothing and lose nothing.
//!
//! For every (target type, request body, content type) the real actix-web and
//! axum extractor futures are driven by hand (no runtime, no-op waker) under
//! *every* delivery schedule of the body — every split into ≤ 3 chunks with a
//! `Pending` before any subset of the chunks and before the end — and compared
//! with the framework's own extractor on an identical request followed by
//! `deserr::deserialize`.  The query-parameter extractor is checked over every
//! query string of a small grammar.

use actix_web::FromRequest as _;
use bytes::Bytes;
use deserr::errors::JsonError;
use deserr::Deserr;
use futures::Stream;
use mc_core::evidence::*;
use serde_json::json;
use std::collections::{HashSet, VecDeque};
use std::future::Future;
use std::pin::Pin;
use std::task::{Context, Poll, Waker};

// ---------------- target types ----------------

#[derive(Debug, PartialEq, Deserr)]
#[deserr(deny_unknown_fields)]
pub struct T1 {
    name: String,
    n: u8,
}

#[derive(Debug, PartialEq, Deserr)]
#[deserr(tag = "kind", rename_all = camelCase)]
pub enum T2 {
    Ping,
    Push {
        items: Vec<u8>,
        #[deserr(default)]
        note: Option<String>,
    },
}

/// No accepted key at all: the unknown-field message ends with a space.
#[derive(Debug, PartialEq, Deserr)]
#[deserr(deny_unknown_fields)]
pub struct T4 {
    #[deserr(skip)]
    hidden: u8,
}

#[derive(Debug, PartialEq, Deserr)]
pub struct T3 {
    #[deserr(default = 7)]
    limit: u8,
    inner: Option<T1>,
}

#[derive(Debug, PartialEq, Deserr)]
#[deserr(rename_all = camelCase, deny_unknown_fields)]
pub struct Q1 {
    q: String,
    #[deserr(default)]
    sort_by: Option<SortBy>,
    #[deserr(default)]
    c: Option<char>,
}

#[derive(Debug, PartialEq, Deserr)]
#[deserr(rename_all = lowercase)]
pub enum SortBy {
    Name,
    Date,
}

// ---------------- error types ----------------

/// What the statement prescribes for an error of type `Self` carried by a rejection,
/// stated independently of the extractors: status code and body of the response.
pub trait Prescribed: deserr::DeserializeError + actix_web::ResponseError + axum::response::IntoResponse + 'static {
    fn prescribed(&self) -> (u16, String);
    fn text(&self) -> String;
}

impl Prescribed for JsonError {
    fn prescribed(&self) -> (u16, String) {
        // "for JsonError: status 400 with the message as body"
        (400, self.to_string())
    }
    fn text(&self) -> String {
        self.to_string()
    }
}

/// A user-defined keep-going error type whose HTTP rendering is *not* a 400:
/// the rejection must carry exactly this error, rendered by its own impls.
#[derive(Debug, Clone, PartialEq)]
pub struct HttpErr(pub Vec<String>);

impl std::fmt::Display for HttpErr {
    fn fmt(&self, f: &mut std::fmt::Formatter<'_>) -> std::fmt::Result {
        write!(f, "{}", self.0.join(" | "))
    }
}

impl deserr::DeserializeError for HttpErr {
    fn error<V: deserr::IntoValue>(
        self_: Option<Self>,
        error: deserr::ErrorKind<V>,
        location: deserr::ValuePointerRef,
    ) -> std::ops::ControlFlow<Self, Self> {
        // reuse JsonError's rendering of one report, but keep going
        let one = match JsonError::error::<V>(None, error, location) {
            std::ops::ControlFlow::Break(e) | std::ops::ControlFlow::Continue(e) => e.to_string(),
        };
        let mut v = self_.map(|s| s.0).unwrap_or_default();
        v.push(one);
        std::ops::ControlFlow::Continue(HttpErr(v))
    }
}

impl deserr::MergeWithError<HttpErr> for HttpErr {
    fn merge(self_: Option<Self>, other: HttpErr, _: deserr::ValuePointerRef) -> std::ops::ControlFlow<Self, Self> {
        let mut v = self_.map(|s| s.0).unwrap_or_default();
        v.extend(other.0);
        std::ops::ControlFlow::Continue(HttpErr(v))
    }
}

impl actix_web::ResponseError for HttpErr {
    fn status_code(&self) -> actix_web::http::StatusCode {
        actix_web::http::StatusCode::UNPROCESSABLE_ENTITY
    }
    fn error_response(&self) -> actix_web::HttpResponse<actix_web::body::BoxBody> {
        actix_web::HttpResponseBuilder::new(self.status_code()).content_type("text/plain").body(format!("E:{self}"))
    }
}

impl axum::response::IntoResponse for HttpErr {
    fn into_response(self) -> axum::response::Response {
        (http::StatusCode::UNPROCESSABLE_ENTITY, format!("E:{self}")).into_response()
    }
}

impl Prescribed for HttpErr {
    fn prescribed(&self) -> (u16, String) {
        (422, format!("E:{self}"))
    }
    fn text(&self) -> String {
        self.to_string()
    }
}

// ---------------- manual polling ----------------

const HORIZON: usize = 10_000;

fn drive<F: Future>(f: F) -> Option<(F::Output, usize)> {
    let mut f = Box::pin(f);
    let waker = Waker::noop();
    let mut cx = Context::from_waker(waker);
    for polls in 1..=HORIZON {
        if let Poll::Ready(v) = f.as_mut().poll(&mut cx) {
            return Some((v, polls));
        }
    }
    None
}

#[derive(Clone, Debug, PartialEq, Eq, Hash)]
enum Step {
    Chunk(Vec<u8>),
    Pending,
    /// the transport fails (kind 0 / 1: two different framework-level errors)
    Fail(u8),
}

/// A delivery schedule of a body: the environment answers of the extractor future.
struct Scripted<E> {
    steps: VecDeque<Step>,
    mk_err: fn(u8) -> E,
}

impl<E> Unpin for Scripted<E> {}

impl<E> Stream for Scripted<E> {
    type Item = Result<Bytes, E>;
    fn poll_next(mut self: Pin<&mut Self>, cx: &mut Context<'_>) -> Poll<Option<Self::Item>> {
        match self.steps.pop_front() {
            None => Poll::Ready(None),
            Some(Step::Pending) => {
                cx.waker().wake_by_ref();
                Poll::Pending
            }
            Some(Step::Chunk(c)) => Poll::Ready(Some(Ok(Bytes::from(c)))),
            Some(Step::Fail(k)) => Poll::Ready(Some(Err((self.mk_err)(k)))),
        }
    }
}

fn scripted<E>(steps: &[Step], mk_err: fn(u8) -> E) -> Scripted<E> {
    Scripted { steps: steps.iter().cloned().collect(), mk_err }
}

fn actix_err(k: u8) -> actix_web::error::PayloadError {
    match k {
        0 => actix_web::error::PayloadError::Overflow,
        _ => actix_web::error::PayloadError::Incomplete(None),
    }
}

fn io_err(k: u8) -> std::io::Error {
    match k {
        0 => std::io::Error::new(std::io::ErrorKind::ConnectionReset, "connection reset"),
        _ => std::io::Error::new(std::io::ErrorKind::UnexpectedEof, "unexpected eof"),
    }
}

/// Every split of `body` into ≤ `max_chunks` chunks (cut points from `cuts`),
/// with a Pending before any subset of the chunks and before the end.
fn schedules(body: &[u8], max_chunks: usize, all_cuts: bool) -> Vec<Vec<Step>> {
    let l = body.len();
    let cut_points: Vec<usize> = if all_cuts || l <= 8 {
        (1..l).collect()
    } else {
        let mut v = vec![1, 2, l / 3, l / 2, l - 2, l - 1];
        v.retain(|c| *c >= 1 && *c < l);
        v.sort();
        v.dedup();
        v
    };
    let mut splits: Vec<Vec<usize>> = vec![vec![]];
    if max_chunks >= 2 {
        for &a in &cut_points {
            splits.push(vec![a]);
        }
    }
    if max_chunks >= 3 {
        for (i, &a) in cut_points.iter().enumerate() {
            for &b in &cut_points[i + 1..] {
                splits.push(vec![a, b]);
            }
        }
    }
    if l == 0 {
        // the empty body: no chunk at all, or one empty chunk
        splits = vec![vec![]];
    }
    let mut out = vec![];
    for cuts in splits {
        let mut chunks: Vec<Vec<u8>> = vec![];
        let mut prev = 0;
        for &c in &cuts {
            chunks.push(body[prev..c].to_vec());
            prev = c;
        }
        chunks.push(body[prev..].to_vec());
        if l == 0 {
            chunks.clear();
        }
        let slots = chunks.len() + 1;
        for mask in 0u32..(1 << slots) {
            let mut steps = vec![];
            for (i, c) in chunks.iter().enumerate() {
                if mask & (1 << i) != 0 {
                    steps.push(Step::Pending);
                }
                steps.push(Step::Chunk(c.clone()));
            }
            if mask & (1 << chunks.len()) != 0 {
                steps.push(Step::Pending);
            }
            out.push(steps);
        }
    }
    if l == 0 {
        out.push(vec![Step::Chunk(vec![])]);
        out.push(vec![Step::Pending, Step::Chunk(vec![]), Step::Pending]);
    }
    // transport failures: at the start, after a first part, after the whole body
    for k in [0u8, 1] {
        out.push(vec![Step::Fail(k)]);
        out.push(vec![Step::Pending, Step::Fail(k)]);
        out.push(vec![Step::Chunk(body.to_vec()), Step::Fail(k)]);
        if l >= 2 {
            out.push(vec![Step::Chunk(body[..l / 2].to_vec()), Step::Pending, Step::Fail(k), Step::Chunk(body[l / 2..].to_vec())]);
        }
    }
    out
}

// ---------------- outcomes ----------------

#[derive(Clone, Debug, PartialEq, Eq, Hash)]
enum Extracted {
    /// Debug rendering of the extracted value
    Value(String),
    /// rejection: status code and body
    Rejected { status: u16, body: String },
    /// the future did not complete within the horizon
    Stuck,
    Panicked(String),
}

fn actix_error_outcome(e: &actix_web::Error) -> Extracted {
    let resp = e.error_response();
    let status = resp.status().as_u16();
    let body = match drive(actix_web::body::to_bytes(resp.into_body())) {
        Some((Ok(b), _)) => String::from_utf8_lossy(&b).to_string(),
        _ => "<unreadable body>".to_string(),
    };
    Extracted::Rejected { status, body }
}

thread_local! {
    /// JSON body limit configured on the actix request (None = framework default)
    static ACTIX_LIMIT: std::cell::Cell<Option<usize>> = std::cell::Cell::new(None);
}

thread_local! {
    /// further request headers (Content-Length announced or not, Transfer-Encoding, ...)
    static EXTRA_HEADERS: std::cell::RefCell<Vec<(&'static str, String)>> = std::cell::RefCell::new(vec![]);
}

/// Header sets a request may carry besides the content type: what is *announced* about the body.
fn header_sets(body_len: usize) -> Vec<Vec<(&'static str, String)>> {
    vec![
        vec![],
        vec![("content-length", body_len.to_string())],
        vec![("content-length", "0".to_string())],
        vec![("content-length", "1000000000".to_string())],
        vec![("transfer-encoding", "chunked".to_string())],
        vec![("content-encoding", "gzip".to_string())],
        vec![("content-length", body_len.to_string()), ("expect", "100-continue".to_string())],
    ]
}

thread_local! {
    /// The request of the current (content type, limit, headers) combination. actix's test requests
    /// are never freed (the request returns itself to a pool owned by its own app state), about 3 KB
    /// each: one per combination instead of one per delivery schedule keeps a thorough run in memory.
    static REQ_CACHE: std::cell::RefCell<Option<((Option<String>, Option<usize>, Vec<(&'static str, String)>), actix_web::HttpRequest)>> = std::cell::RefCell::new(None);
}

fn actix_request(content_type: Option<&str>) -> actix_web::HttpRequest {
    let key = (content_type.map(|s| s.to_string()), ACTIX_LIMIT.with(|c| c.get()), EXTRA_HEADERS.with(|h| h.borrow().clone()));
    if let Some(r) = REQ_CACHE.with(|c| c.borrow().as_ref().filter(|(k, _)| *k == key).map(|(_, r)| r.clone())) {
        return r;
    }
    let r = actix_request_new(content_type);
    REQ_CACHE.with(|c| *c.borrow_mut() = Some((key, r.clone())));
    r
}

fn actix_request_new(content_type: Option<&str>) -> actix_web::HttpRequest {
    let mut r = actix_web::test::TestRequest::post().uri("/");
    for (k, v) in EXTRA_HEADERS.with(|h| h.borrow().clone()) {
        r = r.insert_header((k, v));
    }
    if let Some(l) = ACTIX_LIMIT.with(|c| c.get()) {
        r = r.app_data(actix_web::web::JsonConfig::default().limit(l));
    }
    if let Some(ct) = content_type {
        r = r.insert_header(("content-type", ct));
    }
    r.to_http_request()
}

fn actix_payload(steps: &[Step]) -> actix_web::dev::Payload {
    actix_web::dev::Payload::Stream { payload: Box::pin(scripted::<actix_web::error::PayloadError>(steps, actix_err)) }
}

/// The deserr extractor under one schedule.
fn actix_deserr<T: Deserr<E> + std::fmt::Debug + 'static, E: Prescribed>(ct: Option<&str>, steps: &[Step]) -> Extracted {
    let req = actix_request(ct);
    let mut payload = actix_payload(steps);
    let fut = deserr::actix_web::AwebJson::<T, E>::from_request(&req, &mut payload);
    match drive(fut) {
        None => Extracted::Stuck,
        Some((Ok(v), _)) => Extracted::Value(format!("{:?}", v.into_inner())),
        Some((Err(e), _)) => actix_error_outcome(&e),
    }
}

/// What the statement prescribes: framework extractor, then deserr::deserialize.
fn actix_expected<T: Deserr<E> + std::fmt::Debug, E: Prescribed>(ct: Option<&str>, steps: &[Step]) -> Extracted {
    let req = actix_request(ct);
    let mut payload = actix_payload(steps);
    let fut = actix_web::web::Json::<serde_json::Value>::from_request(&req, &mut payload);
    match drive(fut) {
        None => Extracted::Stuck,
        Some((Err(e), _)) => actix_error_outcome(&e),
        Some((Ok(doc), _)) => match deserr::deserialize::<T, _, E>(doc.into_inner()) {
            Ok(v) => Extracted::Value(format!("{v:?}")),
            Err(e) => {
                let (status, body) = e.prescribed();
                Extracted::Rejected { status, body }
            }
        },
    }
}

fn axum_request(ct: Option<&str>, steps: &[Step]) -> axum::extract::Request {
    let body = axum::body::Body::from_stream(scripted::<std::io::Error>(steps, io_err));
    let mut b = http::Request::builder().method("POST").uri("/");
    for (k, v) in EXTRA_HEADERS.with(|h| h.borrow().clone()) {
        b = b.header(k, v);
    }
    if let Some(ct) = ct {
        b = b.header("content-type", ct);
    }
    b.body(body).unwrap()
}

fn axum_response_outcome(resp: axum::response::Response) -> Extracted {
    let status = resp.status().as_u16();
    let body = match drive(axum::body::to_bytes(resp.into_body(), usize::MAX)) {
        Some((Ok(b), _)) => String::from_utf8_lossy(&b).to_string(),
        _ => "<unreadable body>".to_string(),
    };
    Extracted::Rejected { status, body }
}

fn axum_deserr<T: Deserr<E> + std::fmt::Debug + 'static, E: Prescribed>(ct: Option<&str>, steps: &[Step]) -> (Extracted, Option<String>) {
    use axum::extract::FromRequest;
    use axum::response::IntoResponse;
    let req = axum_request(ct, steps);
    let fut = deserr::axum::AxumJson::<T, E>::from_request(req, &());
    match drive(fut) {
        None => (Extracted::Stuck, None),
        Some((Ok(v), _)) => (Extracted::Value(format!("{:?}", v.into_inner())), None),
        Some((Err(rej), _)) => {
            // the rejection carries exactly the deserr error
            let carried = match &rej {
                deserr::axum::AxumJsonRejection::DeserrError(e) => Some(e.text()),
                deserr::axum::AxumJsonRejection::JsonRejection(_) => None,
            };
            (axum_response_outcome(rej.into_response()), carried)
        }
    }
}

fn axum_expected<T: Deserr<E> + std::fmt::Debug, E: Prescribed>(ct: Option<&str>, steps: &[Step]) -> (Extracted, Option<String>) {
    use axum::extract::FromRequest;
    use axum::response::IntoResponse;
    let req = axum_request(ct, steps);
    let fut = axum::Json::<serde_json::Value>::from_request(req, &());
    match drive(fut) {
        None => (Extracted::Stuck, None),
        Some((Err(rej), _)) => (axum_response_outcome(rej.into_response()), None),
        Some((Ok(axum::Json(doc)), _)) => match deserr::deserialize::<T, _, E>(doc) {
            Ok(v) => (Extracted::Value(format!("{v:?}")), None),
            Err(e) => {
                let (status, body) = e.prescribed();
                (Extracted::Rejected { status, body }, Some(e.text()))
            }
        },
    }
}

fn guarded<R>(f: impl FnOnce() -> R + std::panic::UnwindSafe, on_panic: impl FnOnce(String) -> R) -> R {
    match std::panic::catch_unwind(f) {
        Ok(r) => r,
        Err(p) => on_panic(
            p.downcast_ref::<&str>().map(|s| s.to_string()).or_else(|| p.downcast_ref::<String>().cloned()).unwrap_or_default(),
        ),
    }
}

// ---------------- request grammar ----------------

fn bodies(target: &str) -> Vec<Vec<u8>> {
    let mut v: Vec<Vec<u8>> = vec![];
    let mut s = |x: &str| v.push(x.as_bytes().to_vec());
    // a scalar of every kind at the root, empty containers
    for x in ["null", "true", "1", "-1", "1.5", "\"s\"", "[]", "{}", "[1]", "0", "1e400"] {
        s(x);
    }
    // syntactically broken
    for x in ["", " ", "{", "}", "{\"name\":", "{\"name\":\"a\",}", "{\"name\":\"a\",\"n\":1} x", "nul", "{'name':'a'}", "[1,]", "\u{feff}{}"] {
        s(x);
    }
    match target {
        "T1" => {
            for x in [
                r#"{"name":"a","n":1}"#,
                r#" {"name":"a","n":1} "#,
                r#"{"n":1,"name":"a"}"#,
                r#"{"name":1,"n":1}"#,
                r#"{"name":"a","n":"x"}"#,
                r#"{"name":"a","n":300}"#,
                r#"{"name":"a","n":-1}"#,
                r#"{"name":"a","n":1.0}"#,
                r#"{"name":"a"}"#,
                r#"{"n":1}"#,
                r#"{"name":"a","n":1,"zz":0}"#,
                r#"{"name":"a","n":1,"nam":0}"#,
                r#"{"name":null,"n":null}"#,
                r#"{"n":1,"n":2,"name":"a"}"#,
                r#"{"name":"é😀","n":255}"#,
                r#"{"name":"a","n":1"#,
                r#"[{"name":"a","n":1}]"#,
            ] {
                s(x);
            }
            // characters a response layer might be tempted to transform (markup, percent signs,
            // line breaks, NUL, quotes, backslashes), echoed by the message as an offending value,
            // as an unknown member name and inside a quoted container
            for t in ["<b>&amp;</b>", "a&b", "x<y", "y>x", "%41%3C", "line\\nbreak\\r\\n", "nul\\u0000", "q\\\"uote'", "back\\\\slash", " pad ", "\\u2028sep", "${x}", "{{x}}"] {
                v.push(format!("{{\"name\":\"a\",\"n\":\"{t}\"}}").into_bytes());
                v.push(format!("{{\"name\":\"a\",\"n\":1,\"{t}\":0}}").into_bytes());
                v.push(format!("{{\"name\":[\"{t}\",{{\"{t}\":null}}],\"n\":1}}").into_bytes());
            }
            v.push(b"{\"name\":\"\xff\",\"n\":1}".to_vec());
            v.push(b"\xff\xfe".to_vec());
        }
        "T2" => {
            // bodies larger than the transports' internal buffers, and one above the frameworks'
            // default 2 MiB limit (a framework-level 413 at default configuration)
            for n in [40_000usize, 1_100_000] {
                let items = vec!["7"; n].join(",");
                s(&format!("{{\"kind\":\"push\",\"items\":[{items}]}}"));
                s(&format!("{{\"kind\":\"push\",\"items\":[{items},300]}}"));
            }
            for x in [
                r#"{"kind":"ping"}"#,
                r#"{"kind":"Ping"}"#,
                r#"{"kind":"push","items":[1,2]}"#,
                r#"{"kind":"push","items":[1,2],"note":"x"}"#,
                r#"{"kind":"push","items":[1,"x",300]}"#,
                r#"{"kind":"push","items":null}"#,
                r#"{"kind":"push"}"#,
                r#"{"kind":"push","items":[],"note":null}"#,
                r#"{"kind":"push","items":[],"note":1}"#,
                r#"{"kind":1}"#,
                r#"{"kind":null}"#,
                r#"{"items":[1]}"#,
                r#"{"kind":"pong"}"#,
                r#"{"kind":"push","items":[1],"zz":1}"#,
                r#"{"kind":"push","items":[1"#,
            ] {
                s(x);
            }
        }
        "T4" => {
            for x in [r#"{"verbose":1}"#, r#"{"hidden":1}"#, r#"{"a":1,"b":2}"#] {
                s(x);
            }
        }
        "T3" => {
            for x in [
                r#"{"inner":null}"#,
                r#"{"limit":3,"inner":null}"#,
                r#"{"limit":null,"inner":null}"#,
                r#"{"inner":{"name":"a","n":1}}"#,
                r#"{"inner":{"name":"a","n":1,"zz":2}}"#,
                r#"{"inner":{"name":"a"}}"#,
                r#"{"inner":[]}"#,
                r#"{"limit":256,"inner":{"name":1,"n":"x"}}"#,
                r#"{"limit":3}"#,
                r#"{"inner":{"name":"a","n":1}"#,
            ] {
                s(x);
            }
        }
        _ => unreachable!(),
    }
    v.sort();
    v.dedup();
    v
}

const CONTENT_TYPES: [Option<&str>; 13] = [
    Some("application/json"),
    Some("application/json; charset=utf-8"),
    Some("text/plain"),
    None,
    Some("application/vnd.api+json"),
    Some("APPLICATION/JSON"),
    // parameters the frameworks' own extractors ignore or judge by their own rules
    Some("application/json; charset=iso-8859-1"),
    Some("application/json;charset=UTF-16LE"),
    Some("application/json; charset=\"windows-1252\""),
    Some("application/json; charset=bogus; boundary=x"),
    Some("text/plain; charset=iso-8859-1"),
    Some("application/json "),
    Some(""),
];

fn query_strings() -> Vec<String> {
    let keys = ["q", "sortBy", "c", "zz"];
    let vals = ["a", "name", "", "%C3%A9", "%", "a+b", "Name", "xy", "a=b", "YWJj==", "%3Cb%3E%26amp;", "x<y>&", "%0A%00"];
    let mut pairs: Vec<String> = vec![];
    for k in keys {
        pairs.push(k.to_string()); // key without '='
        for v in vals {
            pairs.push(format!("{k}={v}"));
        }
    }
    let mut out = vec![String::new(), "&".into(), "=".into(), "q".into(), "%zz=1".into(), "%3Cb%3E=1".into(), "q=a&<i>=1".into(), "a%26b=1".into(),
        // separators other than `&` are data
        "q=a;b".into(), "q=x;sortBy=date".into(), "q=a;c=x&sortBy=date".into(), "q=a%3Bb".into(), "q=a;".into(), ";q=a".into(), "q=a|c=x".into(), "q=a,c=x".into(), "q=a c=x".into()];
    for a in &pairs {
        out.push(a.clone());
        for b in &pairs {
            out.push(format!("{a}&{b}"));
        }
    }
    // three pairs over a reduced alphabet
    let small: Vec<String> = ["q=a", "sortBy=date", "c=x", "q=b", "zz=1", "sortBy=Date", "c=xy"].iter().map(|s| s.to_string()).collect();
    for a in &small {
        for b in &small {
            for c in &small {
                out.push(format!("{a}&{b}&{c}"));
            }
        }
    }
    out.sort();
    out.dedup();
    out
}

fn run_target<T: Deserr<E> + std::fmt::Debug + 'static, E: Prescribed>(name: &str, tier: Tier, rec: &Recorder, outcomes: &mut HashSet<u64>) {
    let (max_chunks, all_cuts) = if tier == Tier::Quick { (3, false) } else { (3, true) };
    for body in bodies(name) {
        let hsets = header_sets(body.len());
        let combos: Vec<(Option<&str>, Option<usize>, usize)> = CONTENT_TYPES
            .iter()
            .flat_map(|c| [(*c, None, 0usize), (*c, Some(16usize), 0)])
            // announced-body headers: with and without a JSON content type, default limit
            .chain((1..hsets.len()).flat_map(|h| [(Some("application/json"), None, h), (None, None, h), (Some("text/plain"), None, h)]))
            .collect();
        for (ct, limit, hix) in combos {
            // a small body limit makes the framework reject longer bodies with its own (non-400) error
            if limit.is_some() && !(ct == Some("application/json") || ct.is_none()) {
                continue;
            }
            ACTIX_LIMIT.with(|c| c.set(limit));
            EXTRA_HEADERS.with(|h| *h.borrow_mut() = hsets[hix].clone());
            let big = body.len() > 30_000;
            if big && hix != 0 {
                continue;
            }
            if big && (limit.is_some() || !(ct == Some("application/json") || ct == Some("text/plain"))) {
                continue;
            }
            // large bodies: ≤ 2 chunks at the six principal cut points (the cost is in copying)
            // announced-body header sets (quick tier): one or two chunks only
            // (every cut point only for bodies up to 300 bytes: the number of three-chunk schedules
            // grows with the square of the length, their storage with the cube)
            let scheds = if big || (hix != 0 && tier == Tier::Quick) {
                schedules(&body, 2, false)
            } else {
                schedules(&body, max_chunks, all_cuts && body.len() <= 300)
            };
            if std::env::var("VERIF_DEBUG_C20").is_ok() && scheds.len() > 200_000 {
                eprintln!("DEBUG {name} body {} bytes: {} schedules", body.len(), scheds.len());
            }
            let mut states = 0u64;
            let mut execs = 0u64;
            // the statement's right-hand side, under the unsplit schedule
            let unsplit = vec![Step::Chunk(body.clone())];
            let exp_actix = guarded(|| actix_expected::<T, E>(ct, &unsplit), Extracted::Panicked);
            let (exp_axum, exp_axum_err) = guarded(|| axum_expected::<T, E>(ct, &unsplit), |m| (Extracted::Panicked(m), None));
            states += 1;
            outcomes.insert(hash64(&(name, std::any::type_name::<E>(), &exp_actix)));
            outcomes.insert(hash64(&(name, std::any::type_name::<E>(), "axum", &exp_axum)));
            let mut bad = 0;
            for steps in &scheds {
                let got_actix = guarded(|| actix_deserr::<T, E>(ct, steps), Extracted::Panicked);
                let (got_axum, carried) = guarded(|| axum_deserr::<T, E>(ct, steps), |m| (Extracted::Panicked(m), None));
                // the framework's own extractor under the same schedule (must not depend on it either,
                // otherwise the comparison below would be against a moving target)
                let exp_actix_here = guarded(|| actix_expected::<T, E>(ct, steps), Extracted::Panicked);
                let (exp_axum_here, _) = guarded(|| axum_expected::<T, E>(ct, steps), |m| (Extracted::Panicked(m), None));
                execs += 4;
                let mut errs: Vec<String> = vec![];
                if got_actix != exp_actix_here {
                    errs.push(format!("actix-web: AwebJson yields {got_actix:?} but framework extractor + deserialize yields {exp_actix_here:?}"));
                }
                if got_axum != exp_axum_here {
                    errs.push(format!("axum: AxumJson yields {got_axum:?} but framework extractor + deserialize yields {exp_axum_here:?}"));
                }
                if exp_actix_here == exp_actix && got_actix != exp_actix {
                    errs.push(format!("actix-web: outcome depends on the delivery schedule: {got_actix:?} vs {exp_actix:?} when delivered in one chunk"));
                }
                if exp_axum_here == exp_axum && got_axum != exp_axum {
                    errs.push(format!("axum: outcome depends on the delivery schedule: {got_axum:?} vs {exp_axum:?} when delivered in one chunk"));
                }
                if let Some(want) = &exp_axum_err {
                    if exp_axum_here == exp_axum && carried.as_ref() != Some(want) {
                        errs.push(format!("axum: rejection carries {carried:?}, expected AxumJsonRejection::DeserrError({want:?})"));
                    }
                } else if exp_axum_here == exp_axum && carried.is_some() {
                    errs.push(format!("axum: rejection is a DeserrError({carried:?}) although deserr did not fail"));
                }
                for m in errs {
                    bad += 1;
                    if bad <= 2 {
                        rec.violation(Violation {
                            property: "C20".into(),
                            subject: format!("{name} / {} / {}", std::any::type_name::<E>().rsplit("::").next().unwrap_or(""), m.split(':').next().unwrap_or("")),
                            message: format!(
                                "{m}\n  body ({} bytes): {:?}\n  content-type: {ct:?}  other headers: {:?}  actix JSON limit: {limit:?}\n  delivery schedule: {}",
                                body.len(),
                                String::from_utf8_lossy(&body[..body.len().min(300)]),
                                hsets[hix],
                                describe(steps).chars().take(600).collect::<String>()
                            ),
                            replay: json!({"kind": "c20", "target": name, "body_len": body.len(), "body_prefix": String::from_utf8_lossy(&body[..body.len().min(2000)]), "content_type": ct, "other_headers": format!("{:?}", hsets[hix]), "actix_json_limit": limit, "schedule": describe(steps).chars().take(2000).collect::<String>()}),
                        });
                    }
                }
            }
            rec.add_counts(states, scheds.len() as u64, execs + 2);
            if rec.want_sample() && ct == Some("application/json") && body.len() > 12 {
                rec.sample(json!({"target": name, "body": String::from_utf8_lossy(&body), "content_type": ct, "schedules": scheds.len(),
                                  "one_schedule": describe(&scheds[scheds.len() / 2]), "outcome": format!("{exp_actix:?}")}));
            }
        }
    }
}

fn describe(steps: &[Step]) -> String {
    steps
        .iter()
        .map(|s| match s {
            Step::Pending => "Pending".to_string(),
            Step::Chunk(c) => format!("Chunk({:?})", String::from_utf8_lossy(c)),
            Step::Fail(k) => format!("TransportError({k})"),
        })
        .collect::<Vec<_>>()
        .join(" → ")
}

fn run_query<E: Prescribed>(rec: &Recorder, outcomes: &mut HashSet<u64>) where Q1: Deserr<E> {
    use actix_web::web::Query;
    let qs = query_strings();
    let mut execs = 0u64;
    for q in &qs {
        let got: Extracted = guarded(
            || match deserr::actix_web::AwebQueryParameter::<Q1, E>::from_query(q) {
                Ok(v) => Extracted::Value(format!("{:?}", v.into_inner())),
                Err(e) => actix_error_outcome(&e),
            },
            Extracted::Panicked,
        );
        let want: Extracted = guarded(
            || match Query::<serde_json::Value>::from_query(q) {
                Err(e) => actix_error_outcome(&actix_web::Error::from(e)),
                Ok(doc) => match deserr::deserialize::<Q1, _, E>(doc.into_inner()) {
                    Ok(v) => Extracted::Value(format!("{v:?}")),
                    Err(e) => {
                        let (status, body) = e.prescribed();
                        Extracted::Rejected { status, body }
                    }
                },
            },
            Extracted::Panicked,
        );
        // and through FromRequest on a request carrying that query string
        let via_request: Extracted = guarded(
            || {
                let uri = format!("/?{q}");
                if uri.parse::<http::Uri>().is_err() {
                    return want.clone();
                }
                let req = actix_web::test::TestRequest::get().uri(&uri).to_http_request();
                if req.query_string() != q {
                    return want.clone();
                }
                let mut pl = actix_web::dev::Payload::None;
                match drive(deserr::actix_web::AwebQueryParameter::<Q1, E>::from_request(&req, &mut pl)) {
                    None => Extracted::Stuck,
                    Some((Ok(v), _)) => Extracted::Value(format!("{:?}", v.into_inner())),
                    Some((Err(e), _)) => actix_error_outcome(&e),
                }
            },
            Extracted::Panicked,
        );
        execs += 3;
        outcomes.insert(hash64(&("query", std::any::type_name::<E>(), &want)));
        for (label, g) in [("from_query", &got), ("FromRequest", &via_request)] {
            if *g != want {
                rec.violation(Violation {
                    property: "C20".into(),
                    subject: format!("AwebQueryParameter::{label} / {}", std::any::type_name::<E>().rsplit("::").next().unwrap_or("")),
                    message: format!("query string {q:?}: extractor yields {g:?} but framework Query + deserialize yields {want:?}"),
                    replay: json!({"kind": "c20-query", "query": q}),
                });
            }
        }
    }
    rec.add_counts(qs.len() as u64, qs.len() as u64, execs);
    rec.set_extra("query_strings", json!(qs.len()));
    rec.sample(json!({"query_string": "q=a&sortBy=Date", "outcome": format!("{:?}", deserr::actix_web::AwebQueryParameter::<Q1, JsonError>::from_query("q=a&sortBy=Date").map(|v| v.into_inner()).map_err(|e| e.to_string()))}));
}

fn main() {
    let args: Vec<String> = std::env::args().collect();
    let tier = match args.get(1).map(|s| s.as_str()) {
        Some("thorough") => Tier::Thorough,
        _ => Tier::Quick,
    };
    std::panic::set_hook(Box::new(|_| {}));
    let rec = Recorder::new("C20", tier);
    // self-check of the driver: a schedule with Pendings must need more polls than the unsplit one
    {
        let body = br#"{"name":"a","n":1}"#.to_vec();
        let s = vec![Step::Pending, Step::Chunk(body[..3].to_vec()), Step::Pending, Step::Chunk(body[3..].to_vec()), Step::Pending];
        let req = actix_request(Some("application/json"));
        let mut p = actix_payload(&s);
        let (_, polls) = drive(actix_web::web::Json::<serde_json::Value>::from_request(&req, &mut p)).expect("driver completes");
        assert!(polls >= 3, "scripted Pendings are not observed by the extractor future ({polls} polls)");
    }
    if let Ok(which) = std::env::var("VERIF_DEBUG_LEAK") {
        let rss = || std::fs::read_to_string("/proc/self/statm").ok().and_then(|s| s.split_whitespace().nth(1).and_then(|x| x.parse::<u64>().ok())).unwrap_or(0) * 4;
        let body = br#"{"name":"a","n":"x"}"#.to_vec();
        let steps = vec![Step::Chunk(body[..3].to_vec()), Step::Pending, Step::Chunk(body[3..].to_vec())];
        let before = rss();
        for _ in 0..300_000 {
            match which.as_str() {
                "actix" => { let _ = actix_deserr::<T1, JsonError>(Some("application/json"), &steps); }
                "actix_expected" => { let _ = actix_expected::<T1, JsonError>(Some("application/json"), &steps); }
                "axum" => { let _ = axum_deserr::<T1, JsonError>(Some("application/json"), &steps); }
                "axum_expected" => { let _ = axum_expected::<T1, JsonError>(Some("application/json"), &steps); }
                _ => { let _ = schedules(&body, 3, true); }
            }
        }
        println!("{which}: RSS grew by {} KiB over 300000 calls", rss() - before);
        return;
    }
    let mut outcomes: HashSet<u64> = HashSet::new();
    ACTIX_LIMIT.with(|c| c.set(None));
    run_target::<T1, JsonError>("T1", tier, &rec, &mut outcomes);
    run_target::<T2, JsonError>("T2", tier, &rec, &mut outcomes);
    run_target::<T3, JsonError>("T3", tier, &rec, &mut outcomes);
    run_target::<T4, JsonError>("T4", tier, &rec, &mut outcomes);
    // a user-defined keep-going error type rendered as 422: the rejection must carry exactly it
    run_target::<T1, HttpErr>("T1", tier, &rec, &mut outcomes);
    run_target::<T2, HttpErr>("T2", tier, &rec, &mut outcomes);
    run_target::<T3, HttpErr>("T3", tier, &rec, &mut outcomes);
    run_target::<T4, HttpErr>("T4", tier, &rec, &mut outcomes);
    ACTIX_LIMIT.with(|c| c.set(None));
    run_query::<JsonError>(&rec, &mut outcomes);
    run_query::<HttpErr>(&rec, &mut outcomes);
    rec.add_signatures(&outcomes, &outcomes);
    rec.set_extra("poll_horizon", json!(HORIZON));
    rec.set_extra("content_types", json!(CONTENT_TYPES.iter().map(|c| format!("{c:?}")).collect::<Vec<_>>()));
    let code = rec.finish(
        "model_checking",
        "states = (target type ∈ {struct with deny_unknown_fields, tagged enum with Vec and defaulted Option, struct with default and nested Option<struct>}, request body from a grammar of valid / ill-typed at each position / scalar of every kind at the root / syntactically broken / non-UTF-8 documents, bodies of 80 KB and 2.2 MB (above the frameworks' default limit), content type ∈ 6 values incl. absent and wrong); transitions = delivery schedules of the body: every split into ≤ 3 chunks (quick: cut points {1,2,L/3,L/2,L-2,L-1}; thorough: all cut points) × a Pending before every subset of the chunks and before the end, plus transport failures (two framework-level error kinds) at the start, mid-body and after the body; actix additionally with a 16-byte JSON limit (framework rejection with a non-400 status). Every schedule drives the real AwebJson and AxumJson extractor futures by hand (no runtime, no-op waker, 10 000-poll horizon). Oracle (self-relative): equals the framework's own Json<serde_json::Value> extractor on an identical request followed by deserr::deserialize (same value; on deserr failure the rejection carries exactly the deserr error — for JsonError status 400 with the message as body, for a user-defined keep-going error type its own 422 rendering; for axum AxumJsonRejection::DeserrError with that error; framework rejections unchanged in status and body); independent of the schedule. Query parameters: every query string of ≤ 2 pairs over 4 keys × 8 values (incl. repeated keys, empty values, %-escapes, a broken escape) and ≤ 3 pairs over a reduced alphabet, through from_query and FromRequest, against Query<serde_json::Value> + deserialize.",
        &[
            "the frameworks' own extractors are the reference for framework-level behaviour, as the statement says",
            "bodies come from a finite grammar; body size limits of the frameworks are not exercised",
        ],
    );
    std::process::exit(code);
}
